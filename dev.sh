#!/bin/bash
# developer convenience: build bin/mosscheck from the current /repo tree
cd "$(dirname "$0")/harness" && GOFLAGS=-mod=mod GOPROXY=off GOSUMDB=off GOTOOLCHAIN=local go build -tags verif -o ../bin/mosscheck ./cmd/mosscheck
