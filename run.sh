#!/bin/bash
# ./run.sh <ID> <quick|thorough>     run one property check (VERIF_SEED honoured, default 1)
# ./run.sh --setup                   build both binaries once (warms the build cache)
# ./run.sh --replay <file>           re-execute a replay file
# ./run.sh --baseline-off            run the repository's own suite with the guard off
#
# Every invocation rebuilds the harness against /repo's CURRENT working tree
# (-tags verif); binaries get per-invocation names so concurrent checks do
# not clobber each other, and are removed afterwards together with scratch.
set -u
cd "$(dirname "$0")"
VERIF="$(pwd)"
export GOFLAGS=-mod=mod GOPROXY=off GOSUMDB=off GOTOOLCHAIN=local
export GOCACHE="${GOCACHE:-$HOME/.cache/go-build}"
mkdir -p bin evidence

# VERIF_REPO (default /repo) selects the moss tree to build against.  The
# registered commands always use /repo; seeded-change trials point it at a
# scratch worktree so that /repo itself stays untouched.
REPO="${VERIF_REPO:-/repo}"
MODFLAGS=()
if [ "$REPO" != "/repo" ]; then
  MF="$VERIF/bin/go.$$.mod"
  sed "s#=> /repo#=> $REPO#" harness/go.mod > "$MF"; cp harness/go.sum "$VERIF/bin/go.$$.sum"
  MODFLAGS=(-modfile="$MF")
fi
build() { # $1 = output, $2... = extra flags
  local out="$1"; shift
  (cd harness && go build "${MODFLAGS[@]}" -tags verif "$@" -o "$out" ./cmd/mosscheck) || { echo "HARNESS-ERROR build failed"; exit 3; }
}

needs_race() { case "$1" in C17) return 0;; *) return 1;; esac; }

case "${1:-}" in
  --setup)
    build "$VERIF/bin/mosscheck.setup" && build "$VERIF/bin/mosscheck-race.setup" -race
    rc=$?
    rm -f "$VERIF/bin/mosscheck.setup" "$VERIF/bin/mosscheck-race.setup"
    exit $rc ;;
  --baseline-off)
    cd /repo && exec go test -vet=off -count=1 -timeout 25m ./... ;;
  --replay)
    BIN="$VERIF/bin/mosscheck.$$"
    build "$BIN"
    "$BIN" replay "$2"; rc=$?
    rm -f "$BIN"; exit $rc ;;
esac

ID="${1:?property id}"; TIER="${2:-${VERIF_TIER:-quick}}"; SEED="${VERIF_SEED:-1}"
BIN="$VERIF/bin/mosscheck.$$"; RBIN=""
SCR_ROOT="${VERIF_SCRATCH:-}"
if [ -z "$SCR_ROOT" ]; then
  if [ -d /dev/shm ] && [ -w /dev/shm ]; then SCR_ROOT=/dev/shm; else SCR_ROOT="${TMPDIR:-/tmp}"; fi
fi
SCR="$SCR_ROOT/mossverif.$$"
cleanup() { rm -rf "$BIN" "$RBIN" "$SCR" "$VERIF/bin/go.$$.mod" "$VERIF/bin/go.$$.sum"; }
trap cleanup EXIT
build "$BIN"
rm -f "${VERIF_OUT:-$VERIF}"/replays/"$ID"-* 2>/dev/null
EXTRA=()
if needs_race "$ID" || [ "${VERIF_RACE:-}" = 1 ]; then
  RBIN="$VERIF/bin/mosscheck-race.$$"
  build "$RBIN" -race
  EXTRA=(--racebin "$RBIN")
fi
"$BIN" run --prop "$ID" --tier "$TIER" --seed "$SEED" --verif "${VERIF_OUT:-$VERIF}" --scratch "$SCR" "${EXTRA[@]}"
exit $?
