package checks

import (
	"encoding/json"
	"fmt"
	"os"
	"path/filepath"
	"strings"

	"github.com/couchbase/moss"

	"mossverif/eng"
	"mossverif/model"
	"mossverif/run"
)

// c12Step: round | walk | revert | reopen | hold | revert-held
type c12Step struct {
	K     string
	B     []*model.Batch `json:",omitempty"` // round: batches executed before the directed merge+persist
	Depth int            `json:",omitempty"` // revert: how many steps to walk back (0 = current)
	All   bool           `json:",omitempty"` // round: mergeAll
	Keep  bool           `json:",omitempty"` // revert: keep the reverted-to snapshot open and re-read it later
}

type c12Case struct {
	Cfg   eng.Config
	Steps []c12Step
}

func genC12(r *eng.Rng, th bool) *c12Case {
	cfg := eng.GenConfig(r, "store", false)
	switch r.Intn(6) {
	case 0, 1, 2:
		cfg.Concern = 0
	case 3, 4:
		cfg.Concern = 1
		cfg.LevelMaxSegments = r.Pick(2, 3, 4)
		cfg.LevelMultiplier = r.Pick(2, 3, 9)
	default:
		cfg.Concern = 2
	}
	cfg.MaxDirtyOps, cfg.MaxDirtyKeyValBytes = 0, 0
	cfg.MaxPreMergerBatches = 10
	c := &c12Case{Cfg: cfg}
	children := r.Chance(1, 2)
	gp := eng.GenParams{MinBatches: 1, MaxBatches: 1, NKeys: 6 + r.Intn(6), Children: children, ChildOnlyPct: 15}
	// reuse the batch generator through a throw-away program per round
	bg := eng.NewBatchGen(r, gp)
	n := 3 + r.Intn(10)
	if th {
		n = 3 + r.Intn(16)
	}
	for i := 0; i < n; i++ {
		st := c12Step{K: "round", All: r.Chance(1, 2)}
		for j := 0; j < 1+r.Intn(2); j++ {
			st.B = append(st.B, bg.Next())
		}
		c.Steps = append(c.Steps, st)
		if r.Chance(1, 3) {
			c.Steps = append(c.Steps, c12Step{K: "walk"})
		}
		if r.Chance(1, 5) {
			c.Steps = append(c.Steps, c12Step{K: "revert", Depth: r.Intn(5), Keep: r.Chance(1, 2)})
		}
		if r.Chance(1, 8) {
			c.Steps = append(c.Steps, c12Step{K: "reopen"})
		}
	}
	c.Steps = append(c.Steps, c12Step{K: "walk"}, c12Step{K: "revert", Depth: r.Intn(4)}, c12Step{K: "walk"})
	if r.Chance(1, 3) {
		// keep the store snapshot of some round open across later rounds
		// (and compactions), then try to revert to it
		var rounds []int
		for i, st := range c.Steps {
			if st.K == "round" {
				rounds = append(rounds, i)
			}
		}
		at := rounds[r.Intn(len(rounds))] + 1
		end := at + 1 + r.Intn(6)
		var ns []c12Step
		held := false
		for i, st := range c.Steps {
			if i == at {
				ns = append(ns, c12Step{K: "hold"})
				held = true
			}
			if held && (i >= end || st.K == "revert" || st.K == "reopen") {
				ns = append(ns, c12Step{K: "revert-held"})
				held = false
			}
			ns = append(ns, st)
		}
		if held {
			ns = append(ns, c12Step{K: "revert-held"})
		}
		c.Steps = ns
	}
	return c
}

type c12Run struct {
	e    *eng.Exec
	hist []int // prefixes exposed by the footers since the last compaction, oldest first
	sr   *run.ShardResult
	pers uint64
	comp uint64

	held     moss.Snapshot // store snapshot kept open by a "hold" step
	heldK    int
	heldFull uint64 // full compactions the store had run when it was taken
	kept     []keptSnap
}

// keptSnap is a snapshot the store was reverted to and that the application
// keeps open afterwards: it must keep reading what it read, also after the
// store is closed and after the revert's own footer has been retired by a
// compaction.
type keptSnap struct {
	snap   moss.Snapshot
	frozen *model.Coll
	at     int
}

func (x *c12Run) checkKept(stage string) (string, string) {
	for _, k := range x.kept {
		var t *model.Coll
		if err := eng.Safe(func() error { var err error; t, err = eng.ReadTree(k.snap); return err }); err != nil {
			return "kept-snapshot-fault", fmt.Sprintf("the snapshot reverted to at step %d and kept open cannot be read %s: %v", k.at, stage, err)
		}
		x.sr.Counters["history.kept_rereads"]++
		x.sr.Units["kept-reread:"+stage]++
		if m := eng.DiffTree(t, k.frozen, nil); m != nil {
			return "kept-snapshot-changed", fmt.Sprintf("the snapshot reverted to at step %d and kept open reads differently %s: %s", k.at, stage, m)
		}
	}
	return "", ""
}

func (x *c12Run) counters() (uint64, uint64) {
	return x.e.StoreStat("total_persists"), x.e.StoreStat("total_compactions") + x.e.StoreStat("total_compactions_partial")
}

func (x *c12Run) storeK() (int, string) {
	s, err := x.e.Store.Snapshot()
	if err != nil || s == nil {
		return -1, fmt.Sprintf("store snapshot: %v", err)
	}
	defer s.Close()
	return x.snapK(s)
}

func (x *c12Run) snapK(s moss.Snapshot) (int, string) {
	var t *model.Coll
	if err := eng.Safe(func() error { var err error; t, err = eng.ReadTree(s); return err }); err != nil {
		return -1, "read: " + err.Error()
	}
	ks := x.e.World.Prefixes(t.Hash())
	if len(ks) == 0 {
		m := eng.DiffTree(t, x.e.World.Cur(), nil)
		return -1, fmt.Sprintf("content is not a prefix state (vs current: %v)", m)
	}
	return ks[len(ks)-1], ""
}

// walk walks SnapshotPrevious from the current store snapshot and compares
// with the recorded history.
func (x *c12Run) walk() (class, detail string) {
	s, err := x.e.Store.Snapshot()
	if err != nil || s == nil {
		return "snapshot-error", fmt.Sprint(err)
	}
	var got []int
	cur := s
	for depth := 0; ; depth++ {
		k, d := x.snapK(cur)
		if k < 0 {
			cur.Close()
			return "walk-not-a-prefix", fmt.Sprintf("depth %d: %s", depth, d)
		}
		got = append(got, k)
		var prev moss.Snapshot
		err := eng.Safe(func() error { var err error; prev, err = x.e.Store.SnapshotPrevious(cur); return err })
		cur.Close()
		if err != nil {
			return "previous-error", fmt.Sprintf("depth %d: SnapshotPrevious: %v", depth, err)
		}
		if prev == nil {
			break
		}
		cur = prev
		if depth > 200 {
			prev.Close()
			return "walk-too-long", "more than 200 previous snapshots"
		}
	}
	x.sr.Counters["history.walks"]++
	x.sr.Counters["history.walk_snapshots"] += int64(len(got))
	want := make([]int, 0, len(x.hist))
	for i := len(x.hist) - 1; i >= 0; i-- {
		want = append(want, x.hist[i])
	}
	x.sr.Units[fmt.Sprintf("walk-depth:%d", len(want))]++
	if fmt.Sprint(got) != fmt.Sprint(want) {
		cl := "walk-differs"
		if len(got) < len(want) {
			cl = "walk-too-short"
		} else if len(got) > len(want) {
			cl = "walk-too-long"
		}
		return cl, fmt.Sprintf("walking back yields prefixes %v (newest first), recorded history since the last compaction is %v", got, want)
	}
	return "", ""
}

func (x *c12Run) afterRound() (class, detail string) {
	p, c := x.counters()
	k, d := x.storeK()
	if k < 0 {
		return "store-not-a-prefix", d
	}
	switch {
	case c > x.comp:
		x.hist = []int{k}
		x.sr.Units["round:compaction"]++
	case p > x.pers:
		x.hist = append(x.hist, k)
		x.sr.Units["round:append"]++
	}
	x.pers, x.comp = p, c
	return "", ""
}

func runC12(cs *c12Case, scratch string, idx int, sr *run.ShardResult) (class, detail string, step int) {
	dir := filepath.Join(scratch, fmt.Sprintf("case%06d", idx))
	os.MkdirAll(dir, 0o755)
	defer os.RemoveAll(dir)
	e := eng.NewExec(cs.Cfg, dir, true)
	defer e.D.Detach()
	if err := e.Open(); err != nil {
		return "harness", "open: " + err.Error(), 0
	}
	defer e.CloseAll()
	x := &c12Run{e: e, sr: sr}
	defer func() {
		if x.held != nil {
			x.held.Close()
		}
		for _, k := range x.kept {
			eng.Safe(func() error { k.snap.Close(); return nil })
		}
	}()
	k0, _ := x.storeK()
	_ = k0
	reopen := func() (string, string) {
		e.CloseAll()
		if !eng.WaitQuiescent(e.D.Watchdog) {
			return "inconclusive", "pending removals"
		}
		if err := e.Open(); err != nil {
			return "reopen-failed", err.Error()
		}
		x.pers, x.comp = x.counters()
		return "", ""
	}
	for i, st := range cs.Steps {
		switch st.K {
		case "round":
			for _, b := range st.B {
				if err := e.ExecBatch(b); err != nil {
					return "harness", err.Error(), i
				}
			}
			kind := "plain"
			if st.All {
				kind = "mergeAll"
			}
			if r := e.MergerCycle(kind, ""); r == eng.ResWatchdog {
				return "inconclusive", "watchdog merge", i
			}
			r := e.PersisterRound("")
			if r == eng.ResWatchdog {
				return "inconclusive", "watchdog persist", i
			}
			if e.BgErrCount() > 0 {
				return "unprovoked-background-error", e.LastBgErr(), i
			}
			if r == eng.ResEnd {
				if c, d := x.afterRound(); c != "" {
					return c, d, i
				}
			}
			if c, d := x.checkKept("after a later round"); c != "" {
				return c, d, i
			}
		case "walk":
			if c, d := x.walk(); c != "" {
				return c, d, i
			}
		case "reopen":
			if c, d := reopen(); c != "" {
				return c, d, i
			}
			// After a reopen the collection must show what the store had.
			k, d := x.storeK()
			if k < 0 {
				return "store-not-a-prefix", d, i
			}
			e.World.TruncateTo(k)
			if c, d := x.walk(); c != "" {
				return c + "/after-reopen", d, i
			}
		case "hold":
			if x.held != nil {
				x.held.Close()
				x.held = nil
			}
			hs, err := e.Store.Snapshot()
			if err != nil || hs == nil {
				return "snapshot-error", fmt.Sprint(err), i
			}
			k, d := x.snapK(hs)
			if k < 0 {
				hs.Close()
				return "store-not-a-prefix", d, i
			}
			x.held, x.heldK, x.heldFull = hs, k, e.StoreStat("total_compactions")
		case "revert-held":
			if x.held == nil {
				continue
			}
			held := x.held
			x.held = nil
			if err := e.CloseColl(); err != nil {
				held.Close()
				return "close-error", err.Error(), i
			}
			if e.BgErrCount() > 0 {
				held.Close()
				return "unprovoked-background-error", e.LastBgErr(), i
			}
			if c, d := x.afterRound(); c != "" {
				held.Close()
				return c, d, i
			}
			// The held snapshot still reads what it read when it was taken.
			if k, d := x.snapK(held); k != x.heldK {
				held.Close()
				return "held-snapshot-changed", fmt.Sprintf("snapshot taken at prefix %d now reads prefix %d (%s)", x.heldK, k, d), i
			}
			before, _ := x.storeK()
			compacted := e.StoreStat("total_compactions") > x.heldFull
			var rerr error
			ferr := eng.Safe(func() error { rerr = e.Store.SnapshotRevert(held); return nil })
			held.Close()
			if ferr != nil {
				return "revert-fault", ferr.Error(), i
			}
			sr.Counters["history.reverts_to_held"]++
			sr.Units[fmt.Sprintf("revert-held:compacted-since=%v/ok=%v", compacted, rerr == nil)]++
			wantK := x.heldK
			if rerr != nil {
				if !compacted {
					return "revert-error/held", fmt.Sprintf("SnapshotRevert to a held snapshot (prefix %d, history %v, no full compaction since) failed: %v", wantK, x.hist, rerr), i
				}
				// refused (the snapshot lives in a superseded file): nothing may have changed
				wantK = before
				if k, d := x.storeK(); k != before {
					return "refused-revert-changed-store", fmt.Sprintf("SnapshotRevert failed (%v) but the store went from prefix %d to %d (%s)", rerr, before, k, d), i
				}
			} else {
				if k, d := x.storeK(); k != wantK {
					return "revert-wrong-content", fmt.Sprintf("after SnapshotRevert to the held prefix %d the store exposes prefix %d (%s)", wantK, k, d), i
				}
				e.World.TruncateTo(wantK)
				x.hist = []int{wantK}
			}
			// reopen: what the store said must be what the directory holds
			if err := e.CloseStore(); err != nil {
				return "close-error", err.Error(), i
			}
			if !eng.WaitQuiescent(e.D.Watchdog) {
				return "inconclusive", "pending removals", i
			}
			if err := e.Open(); err != nil {
				return "reopen-after-revert-failed", err.Error(), i
			}
			x.pers, x.comp = x.counters()
			s, err := e.Coll.Snapshot()
			if err != nil {
				return "snapshot-error", err.Error(), i
			}
			kk, dd := x.snapK(s)
			s.Close()
			if kk != wantK {
				return "revert-not-durable", fmt.Sprintf("SnapshotRevert to the held prefix %d returned %v, the store then exposed prefix %d, but after a reopen the collection shows prefix %d (%s)", x.heldK, rerr, wantK, kk, dd), i
			}
			if rerr != nil {
				// unpersisted tail (if any) is gone with the close; history as the file has it
				e.World.TruncateTo(wantK)
				k, _ := x.storeK()
				_ = k
			} else if c, d := x.walk(); c != "" {
				return c + "/after-revert", d, i
			}
		case "revert":
			// Revert needs the collection closed (documented).
			if err := e.CloseColl(); err != nil {
				return "close-error", err.Error(), i
			}
			if e.BgErrCount() > 0 {
				return "unprovoked-background-error", e.LastBgErr(), i
			}
			// Close may have completed a last round.
			if c, d := x.afterRound(); c != "" {
				return c, d, i
			}
			if len(x.hist) == 0 {
				// nothing persisted yet: nothing to revert to
				e.CloseStore()
				if err := e.Open(); err != nil {
					return "harness", err.Error(), i
				}
				x.pers, x.comp = x.counters()
				continue
			}
			depth := st.Depth
			if depth >= len(x.hist) {
				depth = len(x.hist) - 1
			}
			target, err := e.Store.Snapshot()
			if err != nil || target == nil {
				return "snapshot-error", fmt.Sprint(err), i
			}
			for dd := 0; dd < depth; dd++ {
				prev, err := e.Store.SnapshotPrevious(target)
				target.Close()
				if err != nil || prev == nil {
					return "previous-error", fmt.Sprintf("walking to revert target depth %d of %d: prev=%v err=%v", dd, depth, prev, err), i
				}
				target = prev
			}
			wantK := x.hist[len(x.hist)-1-depth]
			var rerr error
			ferr := eng.Safe(func() error { rerr = e.Store.SnapshotRevert(target); return nil })
			if st.Keep && ferr == nil && rerr == nil && len(x.kept) < 2 {
				var t *model.Coll
				if err := eng.Safe(func() error { var err error; t, err = eng.ReadTree(target); return err }); err != nil {
					target.Close()
					return "kept-snapshot-fault", "right after the revert: " + err.Error(), i
				}
				x.kept = append(x.kept, keptSnap{snap: target, frozen: t, at: i})
			} else {
				target.Close()
			}
			if ferr != nil {
				return "revert-fault", ferr.Error(), i
			}
			sr.Counters["history.reverts"]++
			sr.Units[fmt.Sprintf("revert-depth:%d/%d", depth, len(x.hist))]++
			if rerr != nil {
				cl := "revert-error"
				if strings.Contains(rerr.Error(), "slocs <= 0") {
					cl = "revert-error/no-top-level-segments"
				}
				return cl, fmt.Sprintf("SnapshotRevert to depth %d (prefix %d) of history %v failed: %v", depth, wantK, x.hist, rerr), i
			}
			k, d := x.storeK()
			if k != wantK {
				return "revert-wrong-content", fmt.Sprintf("after SnapshotRevert to prefix %d the store exposes prefix %d (%s)", wantK, k, d), i
			}
			e.World.TruncateTo(wantK)
			x.hist = []int{wantK}
			x.pers, x.comp = x.counters()
			// reopen: durable and current
			if err := e.CloseStore(); err != nil {
				return "close-error", err.Error(), i
			}
			if !eng.WaitQuiescent(e.D.Watchdog) {
				return "inconclusive", "pending removals", i
			}
			if c, d := x.checkKept("after the store was closed"); c != "" {
				return c, d, i
			}
			if err := e.Open(); err != nil {
				return "reopen-after-revert-failed", err.Error(), i
			}
			x.pers, x.comp = x.counters()
			s, err := e.Coll.Snapshot()
			if err != nil {
				return "snapshot-error", err.Error(), i
			}
			kk, dd := x.snapK(s)
			s.Close()
			if kk != wantK {
				return "revert-not-durable", fmt.Sprintf("after SnapshotRevert to prefix %d and reopen the collection shows prefix %d (%s)", wantK, kk, dd), i
			}
			if c, d := x.walk(); c != "" {
				return c + "/after-revert", d, i
			}
		}
	}
	if c, d := x.checkKept("at the end"); c != "" {
		return c, d, len(cs.Steps)
	}
	// Final: batches after the last revert build on the reverted content.
	s, err := e.Coll.Snapshot()
	if err == nil && s != nil {
		var t *model.Coll
		ferr := eng.Safe(func() error { var err error; t, err = eng.ReadTree(s); return err })
		s.Close()
		if ferr != nil {
			return "read-error", ferr.Error(), len(cs.Steps)
		}
		if m := eng.DiffTree(t, e.World.Cur(), nil); m != nil {
			return "content-after-revert", m.String(), len(cs.Steps)
		}
	}
	return "", "", 0
}

func init() {
	ck := &run.Check{
		Prop:  "C12",
		Level: "exploration",
		Rule: "steered store programs of 3-19 persistence rounds (1-2 batches each, child collections in half of the cases, compaction disabled / leveled / forced) interleaved with full SnapshotPrevious walks, reopens, and SnapshotRevert (after Collection.Close) to a target 0-4 steps back followed by reopen, further rounds, walks and reverts; the walk must yield, newest first, exactly the recorded store contents (one entry per total_persists increment, list restarted at each compaction and at each revert) and then nil; after a revert Store.Snapshot, the reopened collection and the content later batches build on must be the target. A third of the cases also keep one round's store snapshot open across later rounds and compactions and then revert to it: it must still read what it read; without a full compaction since, the revert must succeed; whenever SnapshotRevert reports success the target must be the store's content and what a reopen yields, and when it refuses (snapshot in a superseded file) nothing may have changed. distinct_nontrivial = distinct walk depths, (revert depth/history length) pairs and round kinds. In half of the reverts the snapshot that was reverted to stays open: it is re-read (faults trapped) after the store was closed, after the reopen, after every later round / compaction and at the end, and must keep reading what it read.",
		MinUnits:    8,
		Assumptions: []string{"a revert restarts the history like a compaction does (what a walk across a revert footer must yield is not stated by the property)"},
	}
	ck.Run = func(c *run.Ctx) *run.ShardResult {
		sr := run.NewShardResult()
		n := 640
		if c.Thorough() {
			n = 9600
		}
		for idx := 0; idx < n; idx++ {
			if !c.Mine(idx) {
				continue
			}
			if sr.Bail() {
				break
			}
			rg := eng.NewRng(c.CaseSeed(idx))
			cs := genC12(rg, c.Thorough())
			c.Progress(idx, cs)
			cls, det, step := runC12(cs, c.Scratch, idx, sr)
			sr.Evaluations++
			sr.Configs[cs.Cfg.Class()]++
			if cls == "inconclusive" || cls == "harness" {
				sr.Inconclusive = append(sr.Inconclusive, fmt.Sprintf("case %d: %s", idx, det))
				continue
			}
			if cls != "" {
				rb, _ := json.Marshal(cs)
				sr.Violations = append(sr.Violations, run.ViolationRec{Property: "C12", Oracle: "history", Class: cls, Detail: det + "\n  case: " + c12Summary(cs), Step: step, Case: idx, Replay: rb})
			}
			if len(sr.Samples) < 2 {
				sr.Samples = append(sr.Samples, map[string]interface{}{"case": idx, "steps": c12Summary(cs)})
			}
		}
		return sr
	}
	ck.Replay = func(body json.RawMessage, scratch string) ([]run.ViolationRec, string) {
		var cs c12Case
		if err := json.Unmarshal(body, &cs); err != nil {
			return nil, "bad replay body"
		}
		sr := run.NewShardResult()
		cls, det, step := runC12(&cs, scratch, 0, sr)
		if cls == "inconclusive" || cls == "harness" {
			return nil, det
		}
		if cls != "" {
			return []run.ViolationRec{{Property: "C12", Oracle: "history", Class: cls, Detail: det, Step: step}}, ""
		}
		return nil, ""
	}
	run.Register(ck)
}

func c12Summary(cs *c12Case) string {
	var p []string
	for _, s := range cs.Steps {
		switch s.K {
		case "round":
			var bs []string
			for _, b := range s.B {
				bs = append(bs, eng.DescribeBatch(b))
			}
			x := strings.Join(bs, " | ")
			if len(x) > 120 {
				x = x[:120] + "..."
			}
			p = append(p, "round["+x+"]")
		case "revert":
			p = append(p, fmt.Sprintf("revert(depth %d)", s.Depth))
		default:
			p = append(p, s.K)
		}
	}
	s := cs.Cfg.Class() + ": " + strings.Join(p, " ; ")
	if len(s) > 1500 {
		s = s[:1500] + "..."
	}
	return s
}
