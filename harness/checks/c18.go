package checks

import (
	"bytes"
	"crypto/sha256"
	"encoding/hex"
	"encoding/json"
	"fmt"
	"os"
	"path/filepath"
	"sort"
	"strings"

	"github.com/couchbase/moss"

	"mossverif/eng"
	"mossverif/model"
	"mossverif/run"
)

// c18Case: a program that builds a persisted directory, decorations that
// imitate what earlier runs / crashes leave behind, and the options and
// actions for the read-only session.
type c18Case struct {
	Build    *eng.Program
	Old      *eng.Program `json:",omitempty"` // builds an unrelated, older complete data file
	Decor    []string     // older | zero | header | partial | nofooter | junkname | readme | subdir | tmp
	KeepFile bool
	IndexMax int
	Actions  []string // reads | batch | notify | stats
	Batches  []*model.Batch
	// Shape: "" = a history with data; "empty" = nothing was ever persisted
	// (empty directory or junk only); "childonly" = the history only created
	// an empty child collection (a footer without any segment).
	Shape string `json:",omitempty"`
	// Revert: after the collection is closed, try SnapshotRevert to the
	// previous footer on the ReadOnly store.
	Revert bool `json:",omitempty"`
	// TwoStep: open with OpenStore + Store.OpenCollection (both with the
	// ReadOnly options) instead of the OpenStoreCollection convenience.
	TwoStep bool `json:",omitempty"`
}

func dirState(dir string) (map[string]string, error) {
	out := map[string]string{}
	err := filepath.Walk(dir, func(p string, info os.FileInfo, err error) error {
		if err != nil {
			return err
		}
		rel, _ := filepath.Rel(dir, p)
		if info.IsDir() {
			out[rel+"/"] = "dir"
			return nil
		}
		b, err := os.ReadFile(p)
		if err != nil {
			return err
		}
		h := sha256.Sum256(b)
		out[rel] = fmt.Sprintf("%d:%s", len(b), hex.EncodeToString(h[:8]))
		return nil
	})
	return out, err
}

func diffState(a, b map[string]string) string {
	var d []string
	for k, v := range a {
		if bv, ok := b[k]; !ok {
			d = append(d, "removed "+k)
		} else if bv != v {
			d = append(d, fmt.Sprintf("changed %s (%s -> %s)", k, v, bv))
		}
	}
	for k := range b {
		if _, ok := a[k]; !ok {
			d = append(d, "created "+k)
		}
	}
	sort.Strings(d)
	return strings.Join(d, "; ")
}

func dataFiles(dir string) []string {
	var out []string
	for _, f := range eng.DirFiles(dir) {
		if strings.HasPrefix(f, "data-") && strings.HasSuffix(f, ".moss") {
			out = append(out, f)
		}
	}
	sort.Strings(out)
	return out
}

func genC18(r *eng.Rng, th bool) *c18Case {
	cfg := eng.GenConfig(r, "store", false)
	cfg.KeepFiles = false
	gp := eng.GenParams{MinBatches: 2, MaxBatches: 8, NKeys: 5 + r.Intn(8), Children: r.Chance(1, 3), Reopen: r.Chance(1, 3)}
	b := eng.GenProgram(r, "C18", cfg, gp)
	b.Steps = append(b.Steps, eng.Step{K: "drain"})
	c := &c18Case{Build: b, KeepFile: r.Chance(1, 2), IndexMax: r.Pick(0, -1, 17)}
	all := []string{"older", "zero", "header", "partial", "nofooter", "junkname", "readme", "subdir", "tmp"}
	switch r.Intn(4) {
	case 0: // clean single file
	default:
		n := 1 + r.Intn(3)
		for i := 0; i < n; i++ {
			c.Decor = append(c.Decor, all[r.Intn(len(all))])
		}
	}
	for _, d := range c.Decor {
		if d == "older" {
			ocfg := eng.Config{Backing: "store", MaxPreMergerBatches: 10}
			ob := eng.GenProgram(r, "C18", ocfg, eng.GenParams{MinBatches: 1, MaxBatches: 3, NKeys: 4})
			ob.Steps = append(ob.Steps, eng.Step{K: "drain"})
			c.Old = ob
		}
	}
	na := 1 + r.Intn(4)
	acts := []string{"reads", "batch", "notify", "stats", "reads", "persist-force", "persist-idle", "persist-plain"}
	for i := 0; i < na; i++ {
		c.Actions = append(c.Actions, acts[r.Intn(len(acts))])
	}
	bg := eng.NewBatchGen(r, eng.GenParams{NKeys: 6, Children: r.Chance(1, 2), ChildOnlyPct: 30})
	for i := 0; i < 2; i++ {
		c.Batches = append(c.Batches, bg.Next())
	}
	c.Revert = r.Chance(1, 3)
	c.TwoStep = r.Chance(1, 2)
	switch r.Intn(8) {
	case 0:
		c.Shape = "empty"
		var nd []string
		for _, d := range c.Decor {
			switch d {
			case "junkname", "readme", "subdir", "tmp":
				nd = append(nd, d)
			}
		}
		c.Decor = nd
		c.Build = &eng.Program{Prop: "C18", Cfg: cfg}
	case 1:
		c.Shape = "childonly"
		c.Build = &eng.Program{Prop: "C18", Cfg: cfg, Steps: []eng.Step{
			{K: "batch", B: &model.Batch{Children: []model.ChildBatch{{Name: "A", B: &model.Batch{}}}}}, {K: "drain"}}}
	}
	return c
}

func copyFile(src, dst string, n int64) error {
	b, err := os.ReadFile(src)
	if err != nil {
		return err
	}
	if n >= 0 && int64(len(b)) > n {
		b = b[:n]
	}
	return os.WriteFile(dst, b, 0o600)
}

func runC18(cs *c18Case, scratch string, idx int, sr *run.ShardResult) (class, disc, detail string) {
	dir := filepath.Join(scratch, fmt.Sprintf("case%06d", idx))
	os.MkdirAll(dir, 0o755)
	defer os.RemoveAll(dir)
	// 1. build the persisted directory
	br := eng.NewRunner(cs.Build, eng.Oracles{}, dir)
	res := br.Run()
	if res.Inconclusive != "" || len(res.Violations) > 0 {
		return "inconclusive", "", fmt.Sprintf("build failed: %s %v", res.Inconclusive, res.Violations)
	}
	want := br.E.World.Cur()
	uni := br.E.Uni
	if !eng.WaitQuiescent(br.E.D.Watchdog) {
		return "inconclusive", "", "pending removals"
	}
	files := dataFiles(dir)
	if cs.Shape == "empty" {
		for _, f := range files { // (an empty store writes nothing; be sure)
			os.Remove(filepath.Join(dir, f))
		}
		files = []string{moss.FormatFName(9)} // only a name to number decorations after
	}
	if len(files) != 1 {
		if len(files) == 0 {
			return "inconclusive", "", "build produced no data file"
		}
		// stale files from the build (KF: child footers) - keep the newest only
		for _, f := range files[:len(files)-1] {
			os.Remove(filepath.Join(dir, f))
		}
		files = files[len(files)-1:]
	}
	cur := files[0]
	seq, _ := moss.ParseFNameSeq(cur)
	// make room below for an older file
	if seq < 3 && cs.Shape != "empty" {
		nn := moss.FormatFName(seq + 4)
		os.Rename(filepath.Join(dir, cur), filepath.Join(dir, nn))
		cur, seq = nn, seq+4
	}
	curPath := filepath.Join(dir, cur)
	st, _ := os.Stat(curPath)
	// 2. decorations
	next := seq + 1
	for _, d := range cs.Decor {
		switch d {
		case "older":
			if cs.Old == nil {
				continue
			}
			odir := filepath.Join(scratch, fmt.Sprintf("old%06d", idx))
			os.MkdirAll(odir, 0o755)
			or := eng.NewRunner(cs.Old, eng.Oracles{}, odir)
			ores := or.Run()
			eng.WaitQuiescent(or.E.D.Watchdog)
			of := dataFiles(odir)
			if ores.Inconclusive == "" && len(of) > 0 {
				copyFile(filepath.Join(odir, of[len(of)-1]), filepath.Join(dir, moss.FormatFName(seq-1)), -1)
			}
			os.RemoveAll(odir)
		case "zero":
			os.WriteFile(filepath.Join(dir, moss.FormatFName(next)), nil, 0o600)
			next++
		case "header":
			copyFile(curPath, filepath.Join(dir, moss.FormatFName(next)), 4096)
			next++
		case "partial":
			copyFile(curPath, filepath.Join(dir, moss.FormatFName(next)), 1000)
			next++
		case "nofooter":
			// a complete header followed by segment bytes but no footer
			n := int64(4096 + 4096)
			if st.Size() < n {
				n = st.Size() - 30
			}
			copyFile(curPath, filepath.Join(dir, moss.FormatFName(next)), n)
			next++
		case "junkname":
			os.WriteFile(filepath.Join(dir, "data-zzz.moss"), []byte("not a moss file"), 0o600)
		case "readme":
			os.WriteFile(filepath.Join(dir, "README"), []byte("hello"), 0o600)
		case "subdir":
			os.MkdirAll(filepath.Join(dir, "sub"), 0o755)
			os.WriteFile(filepath.Join(dir, "sub", "x"), []byte("x"), 0o600)
		case "tmp":
			os.WriteFile(filepath.Join(dir, "data-0000000000000001.tmp"), []byte("tmp"), 0o600)
		}
	}
	decor := append([]string{}, cs.Decor...)
	sort.Strings(decor)
	disc = strings.Join(decor, "+")
	if disc == "" {
		disc = "clean"
	}
	if cs.Shape != "" {
		disc = cs.Shape + ":" + disc
	}
	sr.Units[fmt.Sprintf("dir:%s|keep=%v", disc, cs.KeepFile)]++
	before, err := dirState(dir)
	if err != nil {
		return "harness", disc, err.Error()
	}
	// 3. read-only session
	fs := eng.NewFS()
	fs.Activate()
	defer eng.DeactivateFS()
	so := moss.StoreOptions{KeepFiles: cs.KeepFile, SegmentKeysIndexMaxBytes: cs.IndexMax, OpenFile: fs.Open}
	so.CollectionOptions = moss.DefaultCollectionOptions
	so.CollectionOptions.ReadOnly = true
	var bgErrs []string
	so.CollectionOptions.OnError = func(err error) { bgErrs = append(bgErrs, err.Error()) }
	var store *moss.Store
	var coll moss.Collection
	oerr := eng.Safe(func() error {
		var err error
		po := moss.StorePersistOptions{CompactionConcern: moss.CompactionAllow}
		if cs.TwoStep {
			if store, err = moss.OpenStore(dir, so); err != nil {
				return err
			}
			if coll, err = store.OpenCollection(so, po); err != nil {
				store.Close()
			}
			return err
		}
		store, coll, err = moss.OpenStoreCollection(dir, so, po)
		return err
	})
	sr.Units[fmt.Sprintf("open-api:twostep=%v", cs.TwoStep)]++
	if oerr != nil {
		after, _ := dirState(dir)
		if d := diffState(before, after); d != "" {
			return "readonly-open-modified-directory", disc, "open failed (" + oerr.Error() + ") and the directory changed: " + d
		}
		if cs.Shape == "empty" {
			// no valid data file here: whether a junk-only directory opens at
			// all is not this property's business, only that nothing changed
			sr.Units["open-refused-without-touching:"+disc]++
			return "", disc, ""
		}
		return "readonly-open-failed", disc, fmt.Sprintf("ReadOnly open of a directory holding the valid data file %s failed: %v (files: %v)", cur, oerr, eng.DirFiles(dir))
	}
	closeAll := func() {
		eng.Safe(func() error { coll.Close(); store.Close(); return nil })
	}
	// content before any batch
	check := func(w *model.Coll, stage string) (string, string) {
		s, err := coll.Snapshot()
		if err != nil || s == nil {
			return "snapshot-error", fmt.Sprint(err)
		}
		defer s.Close()
		var got *model.Coll
		if err := eng.Safe(func() error { var err error; got, err = eng.ReadTree(s); return err }); err != nil {
			return "read-error", stage + ": " + err.Error()
		}
		if m := eng.DiffTree(got, w, nil); m != nil {
			return "readonly-content/" + m.Kind, stage + ": " + m.String()
		}
		n, mm := eng.CheckGets(s, w, uni, moss.ReadOptions{})
		sr.Counters["readonly.get_compares"] += int64(n)
		if mm != nil {
			return "readonly-content/" + mm.Kind, stage + ": " + mm.String()
		}
		return "", ""
	}
	if c, d := check(want, "before any batch"); c != "" {
		closeAll()
		return c, disc, d
	}
	live := want.Clone()
	nb := 0
	for _, a := range cs.Actions {
		sr.Units["action:"+a]++
		switch a {
		case "reads":
			if c, d := check(live, "reads"); c != "" {
				closeAll()
				return c, disc, d
			}
		case "batch":
			if nb >= len(cs.Batches) || nb >= moss.DefaultCollectionOptions.MaxPreMergerBatches-1 {
				continue
			}
			mb := cs.Batches[nb]
			nb++
			b, err := coll.NewBatch(0, 0)
			if err != nil {
				closeAll()
				return "readonly-batch-error", disc, err.Error()
			}
			if err := fillModelBatch(b, mb); err != nil {
				closeAll()
				return "harness", disc, err.Error()
			}
			if err := coll.ExecuteBatch(b, moss.WriteOptions{}); err != nil {
				closeAll()
				return "readonly-batch-error", disc, err.Error()
			}
			b.Close()
			live.Apply(mb, eng.MergeFold)
			uni.AddBatch(nil, mb)
		case "notify":
			coll.(interface {
				NotifyMerger(string, bool) error
			}).NotifyMerger("verif", false)
		case "stats":
			coll.Stats()
			store.Stats()
		case "persist-force", "persist-idle", "persist-plain":
			// Store.Persist is public API; on a ReadOnly store it must not
			// write either, whatever the compaction concern.
			var higher moss.Snapshot
			po := moss.StorePersistOptions{CompactionConcern: moss.CompactionForce}
			switch a {
			case "persist-idle":
				po.CompactionConcern = moss.CompactionAllow
			case "persist-plain":
				po.CompactionConcern = moss.CompactionDisable
			}
			if a != "persist-idle" {
				higher, _ = coll.Snapshot()
			}
			var ps moss.Snapshot
			perr := eng.Safe(func() error { var err error; ps, err = store.Persist(higher, po); return err })
			if ps != nil {
				ps.Close()
			}
			if higher != nil {
				higher.Close()
			}
			if perr != nil && eng.IsFault(perr) {
				closeAll()
				return "readonly-persist-panic", disc, perr.Error()
			}
			if c, d := check(live, a); c != "" {
				closeAll()
				return c, disc, d
			}
		}
	}
	if err := eng.Safe(func() error { return coll.Close() }); err != nil {
		return "readonly-close-error", disc, err.Error()
	}
	if cs.Revert {
		// SnapshotRevert needs a footer append: on a ReadOnly store it can
		// only be refused - without touching the directory and without
		// changing what the store itself exposes.
		sr.Units["action:revert-attempt"]++
		var rerr error
		ferr := eng.Safe(func() error {
			cur, err := store.Snapshot()
			if err != nil || cur == nil {
				return nil
			}
			defer cur.Close()
			prev, err := store.SnapshotPrevious(cur)
			if err != nil || prev == nil {
				return nil
			}
			defer prev.Close()
			sr.Counters["readonly.revert_attempts"]++
			rerr = store.SnapshotRevert(prev)
			return nil
		})
		if ferr != nil {
			eng.Safe(func() error { store.Close(); return nil })
			return "readonly-revert-panic", disc, ferr.Error()
		}
		var got *model.Coll
		ferr = eng.Safe(func() error {
			s2, err := store.Snapshot()
			if err != nil || s2 == nil {
				return fmt.Errorf("store snapshot: %v", err)
			}
			defer s2.Close()
			got, err = eng.ReadTree(s2)
			return err
		})
		if ferr != nil {
			eng.Safe(func() error { store.Close(); return nil })
			return "read-error", disc, "after a SnapshotRevert attempt: " + ferr.Error()
		}
		if m := eng.DiffTree(got, want, nil); m != nil {
			eng.Safe(func() error { store.Close(); return nil })
			return "readonly-content-after-revert-attempt/" + m.Kind, disc, fmt.Sprintf("SnapshotRevert on the ReadOnly store returned %v; the store then exposes: %s", rerr, m.String())
		}
	}
	if err := eng.Safe(func() error { return store.Close() }); err != nil {
		return "readonly-close-error", disc, err.Error()
	}
	if !eng.WaitQuiescent(br.E.D.Watchdog) {
		return "inconclusive", disc, "pending goroutines after read-only close"
	}
	after, _ := dirState(dir)
	sr.Counters["readonly.sessions"]++
	if d := diffState(before, after); d != "" {
		return "readonly-modified-directory", disc, "directory changed during a ReadOnly session: " + d
	}
	// recorded file operations: any successful mutating operation is a violation
	for _, op := range fs.Trace {
		switch op.Kind {
		case "create":
			if op.Err == "" {
				return "readonly-file-created", disc, fmt.Sprintf("file %s was created/truncated-open during a ReadOnly session", op.Name)
			}
		case "write":
			if op.N > 0 {
				return "readonly-file-written", disc, fmt.Sprintf("%d bytes written to %s during a ReadOnly session", op.N, op.Name)
			}
			sr.Counters["readonly.refused_writes"]++
		case "truncate":
			if op.Err == "" {
				return "readonly-file-truncated", disc, "Truncate succeeded on " + op.Name
			}
		case "open":
			if op.Flags&(os.O_WRONLY|os.O_RDWR) != 0 && op.Err == "" {
				return "readonly-file-opened-writable", disc, fmt.Sprintf("file %s opened with flags %#x during a ReadOnly session", op.Name, op.Flags)
			}
		case "unlink":
			sr.Counters["readonly.unlink_attempts"]++
		}
	}
	if len(bgErrs) > 0 {
		return "readonly-background-error", disc, bgErrs[0]
	}
	return "", disc, ""
}

func fillModelBatch(b moss.Batch, mb *model.Batch) error {
	for _, op := range mb.Ops {
		var err error
		switch op.Kind {
		case 'S':
			err = b.Set(op.Key, op.Val)
		case 'D':
			err = b.Del(op.Key)
		}
		if err != nil {
			return err
		}
	}
	for _, name := range mb.DelChildren {
		if err := b.DelChildCollection(name); err != nil {
			return err
		}
	}
	for _, cb := range mb.Children {
		child, err := b.NewChildCollectionBatch(cb.Name, moss.BatchOptions{})
		if err != nil {
			return err
		}
		if err := fillModelBatch(child, cb.B); err != nil {
			return err
		}
	}
	return nil
}

var _ = bytes.Equal

func init() {
	ck := &run.Check{
		Prop:  "C18",
		Level: "exploration",
		Rule: "for each case a steered program persists a history into a directory (one case in eight each: nothing ever persisted - an empty directory or junk only; a history that only created an empty child collection, i.e. a footer without segments), which is then decorated with what earlier runs or crashes can leave (an older complete data file of an unrelated store, zero-length / header-only / 1000-byte / footer-less newer data files, an unparsable data-zzz.moss, README, sub-directory, .tmp); the directory is hashed (names, sizes, SHA-256), opened with CollectionOptions.ReadOnly through a recording File substrate (KeepFiles on/off, index settings), read (must equal the persisted reference content), subjected to reads / up to 2 batches (half of the cases with batches that create child collections) / asynchronous notifications / stats / direct Store.Persist calls of the collection's snapshot with every compaction concern, and (a third of the cases, after the collection is closed) a SnapshotRevert attempt to the previous footer, after which the store must still expose the persisted content, closed, and hashed again after quiescence; any difference, any successful create-open, write (n>0), truncate or writable open in the recorded file operations, or a failing open, is a violation. distinct_nontrivial = distinct (decoration set | KeepFiles) pairs and action kinds. Half of the cases open through OpenStore + Store.OpenCollection instead of OpenStoreCollection.",
		MinUnits:    10,
		Assumptions: []string{"mutating operations that are attempted but refused by the OS (EBADF on an O_RDONLY descriptor) are counted, not reported: the property is about effects", "no merger runs in ReadOnly mode, so synchronous notifications and more than MaxPreMergerBatches-1 batches (which block by design) are not used"},
	}
	ck.Run = func(c *run.Ctx) *run.ShardResult {
		sr := run.NewShardResult()
		n := 960
		if c.Thorough() {
			n = 9600
		}
		for idx := 0; idx < n; idx++ {
			if !c.Mine(idx) {
				continue
			}
			if sr.Bail() {
				break
			}
			rg := eng.NewRng(c.CaseSeed(idx))
			cs := genC18(rg, c.Thorough())
			c.Progress(idx, cs)
			cls, disc, det := runC18(cs, c.Scratch, idx, sr)
			sr.Evaluations++
			if cls == "inconclusive" || cls == "harness" {
				sr.Inconclusive = append(sr.Inconclusive, fmt.Sprintf("case %d: %s", idx, det))
				continue
			}
			if cls != "" {
				rb, _ := json.Marshal(cs)
				sr.Violations = append(sr.Violations, run.ViolationRec{Property: "C18", Oracle: "readonly", Class: cls, Disc: disc,
					Detail: det + fmt.Sprintf("\n  decorations=%v keepFiles=%v actions=%v build: %s", cs.Decor, cs.KeepFile, cs.Actions, cs.Build.Summary(12)), Case: idx, Replay: rb})
			}
			if len(sr.Samples) < 2 {
				sr.Samples = append(sr.Samples, map[string]interface{}{"case": idx, "decorations": cs.Decor, "keepFiles": cs.KeepFile, "actions": cs.Actions, "build": cs.Build.Summary(8)})
			}
		}
		return sr
	}
	ck.Replay = func(body json.RawMessage, scratch string) ([]run.ViolationRec, string) {
		var cs c18Case
		if err := json.Unmarshal(body, &cs); err != nil || cs.Build == nil {
			return nil, "bad replay body"
		}
		sr := run.NewShardResult()
		cls, disc, det := runC18(&cs, scratch, 0, sr)
		if cls == "inconclusive" || cls == "harness" {
			return nil, det
		}
		if cls != "" {
			return []run.ViolationRec{{Property: "C18", Oracle: "readonly", Class: cls, Disc: disc, Detail: det}}, ""
		}
		return nil, ""
	}
	run.Register(ck)
}
