package checks

import (
	"encoding/json"
	"fmt"
	"os"
	"path/filepath"
	"time"

	"mossverif/eng"
	"mossverif/run"
)

type c06Replay struct {
	Program *eng.Program
	Faults  []eng.Fault
}

var c06Oracles = eng.Oracles{Content: true, Store: true, Reopen: true, Durable: true}

func genC06Program(r *eng.Rng, th bool) *eng.Program {
	// a third of the programs use the order-sensitive merge operator: a
	// round that is retried after a failure must not fold operands twice
	merge := r.Chance(1, 3)
	cfg := eng.GenConfig(r, "store", merge)
	cfg.KeepFiles = false
	cfg.MaxDirtyOps, cfg.MaxDirtyKeyValBytes = 0, 0
	if cfg.Concern == 1 && r.Chance(1, 2) {
		cfg.LevelMaxSegments = r.Pick(1, 2)
	}
	cfg.BufferPages = r.Pick(0, 1, 1, 2)
	gp := eng.GenParams{MinBatches: 3, MaxBatches: 6, NKeys: 5 + r.Intn(6), Children: r.Chance(1, 4), Idle: true, Merge: merge}
	if r.Chance(1, 3) {
		gp.WideKeys = 150 + r.Intn(300) // several pages of compaction output => several buffered writes
	}
	if r.Chance(1, 3) {
		eng.PartialCompactionProfile(r, &cfg, &gp)
		gp.FirstWide = 200 + r.Intn(300)
		gp.MaxBatches = 8
	}
	p := eng.GenProgram(r, "C06", cfg, gp)
	var steps []eng.Step
	for _, s := range p.Steps {
		steps = append(steps, s)
		if s.K == "batch" && !gp.Lean && r.Chance(2, 3) {
			steps = append(steps, eng.Step{K: "merge", A: "plain"}, eng.Step{K: "persist"})
		}
	}
	if r.Chance(1, 2) {
		steps = append(steps, eng.Step{K: "drain"}, eng.Step{K: "drain"}, eng.Step{K: "reopen", A: "caughtup"})
	} else {
		// Close right after the last round, without the idle full compaction
		// that draining would trigger (it would copy everything into a fresh
		// file and so hide damage done to the current one): the reopened
		// content must still be a prefix no older than what the store exposed.
		steps = append(steps, eng.Step{K: "merge", A: "plain"}, eng.Step{K: "persist"}, eng.Step{K: "reopen", A: "early"})
	}
	p.Steps = steps
	return p
}

// runFault executes the program with a fault plan.
// roundOps records, for one completed round of the clean run, its kind and
// the ordinal range of each operation kind issued during it.
type roundOps struct {
	Kind     string
	From, To map[string]int
}

func runFault(p *eng.Program, faults []eng.Fault, scratch string, idx int) (*eng.Result, *eng.FS) {
	res, fs, _ := runFaultRounds(p, faults, scratch, idx)
	return res, fs
}

func runFaultRounds(p *eng.Program, faults []eng.Fault, scratch string, idx int) (*eng.Result, *eng.FS, []roundOps) {
	dir := filepath.Join(scratch, fmt.Sprintf("case%06d", idx))
	os.MkdirAll(dir, 0o755)
	defer os.RemoveAll(dir)
	defer os.RemoveAll(dir + ".copy")
	fs := eng.NewFS()
	fs.KeepData = true
	fs.Faults = faults
	fs.SlowSiblings = 15 * time.Millisecond
	fs.Activate()
	defer eng.DeactivateFS()
	r := eng.NewRunner(p, c06Oracles, dir)
	r.E.FS = fs
	r.StopFaultsAtReopen = true
	for _, f := range faults {
		if f.Kind == "cut" { // pseudo entry: no operation has this kind
			r.CutAfterFault = true
		}
	}
	r.E.D.SetOnCross(func(point string) {
		if len(point) > 6 && point[:6] == "store." {
			fs.SetPhase(point)
		}
	})
	var rounds []roundOps
	last := map[string]int{}
	r.OnRound = func(k int, kind string) {
		cur := fs.Counts()
		rounds = append(rounds, roundOps{Kind: kind, From: last, To: cur})
		last = cur
	}
	res := r.Run()
	eng.WaitQuiescent(r.E.D.Watchdog)
	return res, fs, rounds
}

func enumeratePlans(counts map[string]int, rounds []roundOps, r *eng.Rng, budget int) [][]eng.Fault {
	var plans [][]eng.Fault
	// Always included (also in the sampled quick tier): single failures of
	// every sync / stat / write issued during a partial compaction round,
	// and during the first full compaction round - those rounds are rare
	// and their error paths differ from plain appends.
	var must [][]eng.Fault
	fullSeen := false
	for _, ro := range rounds {
		if ro.Kind != "partial" && !(ro.Kind == "full" && !fullSeen) {
			continue
		}
		if ro.Kind == "full" {
			fullSeen = true
		}
		for _, k := range []struct{ kind, mode string }{{"sync", "err"}, {"stat", "err"}, {"write", "err"}, {"write", "short"}, {"write", "shortnil"}, {"create", "err"}} {
			for o := ro.From[k.kind]; o < ro.To[k.kind]; o++ {
				plan := []eng.Fault{{Kind: k.kind, Ordinal: o, Count: 1, Mode: k.mode}}
				if ro.Kind == "partial" && len(must)%2 == 0 {
					// variant that closes and reopens right after the retry
					plan = append(plan, eng.Fault{Kind: "cut"})
				}
				must = append(must, plan)
			}
		}
	}
	// A Stat failure while a leveled compaction is being sized makes moss
	// fall back to a full compaction (a different sequence of operations from
	// the clean run): combine it with a failure of one of the first syncs of
	// that compaction - the file it abandons must not survive as the newest
	// data file.
	var forced [][]eng.Fault
	for _, ro := range rounds {
		if ro.Kind != "partial" || ro.To["stat"] <= ro.From["stat"] {
			continue
		}
		for j := 0; j < 4; j++ {
			plan := []eng.Fault{{Kind: "stat", Ordinal: ro.From["stat"], Count: 1, Mode: "err"},
				{Kind: "sync", Ordinal: ro.From["sync"] + j, Count: 1, Mode: "err"}}
			if j%2 == 0 {
				plan = append(plan, eng.Fault{Kind: "cut"})
			}
			forced = append(forced, plan)
		}
	}
	if len(forced) > 16 {
		for i := len(forced) - 1; i > 0; i-- {
			j := r.Intn(i + 1)
			forced[i], forced[j] = forced[j], forced[i]
		}
		forced = forced[:16]
	}
	if len(must) > 60 {
		for i := len(must) - 1; i > 0; i-- {
			j := r.Intn(i + 1)
			must[i], must[j] = must[j], must[i]
		}
		must = must[:60]
	}
	must = append(must, forced...)
	type km struct{ kind, mode string }
	kinds := []km{{"write", "err"}, {"write", "short"}, {"write", "shortnil"}, {"sync", "err"}, {"create", "err"}, {"stat", "err"}}
	for _, k := range kinds {
		n := counts[k.kind]
		for i := 0; i < n; i++ {
			plans = append(plans, []eng.Fault{{Kind: k.kind, Ordinal: i, Count: 1, Mode: k.mode}})
		}
		for _, b := range []int{2, 3, 8} {
			if n > 1 {
				plans = append(plans, []eng.Fault{{Kind: k.kind, Ordinal: r.Intn(n), Count: b, Mode: k.mode}})
			}
		}
		if n > 2 {
			i := r.Intn(n - 1)
			plans = append(plans, []eng.Fault{{Kind: k.kind, Ordinal: i, Count: 1 + r.Intn(n-i), Mode: k.mode}})
		}
	}
	// two different kinds at once
	for j := 0; j < 4; j++ {
		a, b := kinds[r.Intn(len(kinds))], kinds[r.Intn(len(kinds))]
		if counts[a.kind] > 0 && counts[b.kind] > 0 {
			plans = append(plans, []eng.Fault{{Kind: a.kind, Ordinal: r.Intn(counts[a.kind]), Count: 1, Mode: a.mode},
				{Kind: b.kind, Ordinal: r.Intn(counts[b.kind]), Count: 2, Mode: b.mode}})
		}
	}
	if budget > 0 && len(plans) > budget {
		// seeded thinning, keeping a spread over ordinals
		for i := len(plans) - 1; i > 0; i-- {
			j := r.Intn(i + 1)
			plans[i], plans[j] = plans[j], plans[i]
		}
		plans = plans[:budget]
	}
	if budget > 0 {
		plans = append(must, plans...)
	} else {
		plans = append(plans, forced...)
	}
	return plans
}

func init() {
	ck := &run.Check{
		Prop:  "C06",
		Level: "fault_enumeration",
		Rule: "each steered store program (appends, partial/full/idle compactions with small buffers so that compaction output needs several buffered writes, child collections) runs once cleanly through the File substrate to count operations, then once per fault plan: every (kind, ordinal) single failure for create-open / WriteAt error / short write (a prefix really written, ENOSPC) / short write reported by count only (n < len, nil error) / Sync / Stat, bursts of 2,3,8, failures persisting until a later ordinal, pairs of kinds, and a Stat failure that forces a full compaction combined with a failure of one of that compaction's first four syncs (quick: seeded sample of the plans, plus every single failure inside partial and first full compaction rounds; half of the partial-round plans skip to the final close + reopen as soon as the retry has succeeded). Monitors after every step: collection snapshot == reference content; after every round (successful or failed) Store.Snapshot is a non-decreasing prefix state; after every successful round a copy of the directory reopens to a prefix >= the store's; an OnError without a newly fired injected fault is a violation; after the faults, two drains and a caught-up close the reopened content must be the full reference content. distinct_nontrivial = distinct (store phase at the failing operation | kind | mode) triples among plans that actually fired.",
		MinUnits:    8,
		Assumptions: []string{"a failure may cost the round (content stays at the older prefix); only corruption, regression, silent loss or a stuck persister are violations", "a fault on an operation whose result moss ignores need not be surfaced"},
	}
	ck.Run = func(c *run.Ctx) *run.ShardResult {
		sr := run.NewShardResult()
		n, budget := 32, 40
		if c.Thorough() {
			n, budget = 320, 0
		}
		for idx := 0; idx < n; idx++ {
			if !c.Mine(idx) {
				continue
			}
			if sr.Bail() {
				break
			}
			rg := eng.NewRng(c.CaseSeed(idx))
			p := genC06Program(rg, c.Thorough())
			p.Prop = "C06"
			c.Progress(idx, c06Replay{Program: p})
			res, fs, rounds := runFaultRounds(p, nil, c.Scratch, idx)
			sr.Evaluations++
			if res.Inconclusive != "" || len(res.Violations) > 0 {
				if len(res.Violations) > 0 {
					for _, v := range res.Violations {
						rb, _ := json.Marshal(c06Replay{Program: p})
						sr.Violations = append(sr.Violations, run.ViolationRec{Property: "C06", Oracle: v.Oracle, Class: v.Class, Disc: "no-fault",
							Detail: "clean (fault-free) run: " + v.Detail, Step: v.Step, Case: idx, Replay: rb})
					}
				} else {
					sr.Inconclusive = append(sr.Inconclusive, fmt.Sprintf("case %d clean run: %s", idx, res.Inconclusive))
				}
				continue
			}
			counts := fs.Counts()
			plans := enumeratePlans(counts, rounds, rg, budget)
			if c.Verbose {
				var ks []string
				for _, ro := range rounds {
					ks = append(ks, ro.Kind)
				}
				fmt.Printf("case %d cfg=%s tail=%s rounds=%v plans=%d\n", idx, p.Cfg.Class(), p.Steps[len(p.Steps)-1].A, ks, len(plans))
			}
			sr.Counters["programs"]++
			seen := map[string]bool{}
			for _, plan := range plans {
				if sr.Bail() {
					break
				}
				c.Progress(idx, c06Replay{Program: p, Faults: plan})
				res, fs := runFault(p, plan, c.Scratch, idx)
				sr.Evaluations++
				sr.Counters["plans.executed"]++
				if res.Inconclusive != "" {
					sr.Inconclusive = append(sr.Inconclusive, fmt.Sprintf("case %d plan %v: %s", idx, plan, res.Inconclusive))
					continue
				}
				fired := fs.Fired
				if len(fired) == 0 {
					sr.NotReached[fmt.Sprintf("%s/%s", plan[0].Kind, plan[0].Mode)]++
					sr.Counters["plans.not_reached"]++
				} else {
					sr.Counters["plans.fired"]++
					for _, f := range fired {
						ph := f.Phase
						if ph == "" {
							ph = "open/start-file"
						}
						mode := "err"
						if f.Kind == "write" && f.N > 0 {
							mode = "short"
							if f.Err == "" {
								mode = "short-without-error"
							}
						}
						sr.Units[ph+"|"+f.Kind+"|"+mode]++
					}
				}
				for k, v := range res.Counters {
					if len(k) > 7 && (k[:7] == "faults." || k[:7] == "rounds." || k[:8] == "durable.") {
						sr.Counters[k] += v
					}
				}
				for _, v := range res.Violations {
					disc := "none-fired"
					if len(fired) > 0 {
						ph := fired[0].Phase
						if ph == "" {
							ph = "open/start-file"
						}
						disc = fired[0].Kind + "@" + ph
					}
					key := v.Oracle + v.Class + disc
					if seen[key] {
						continue
					}
					seen[key] = true
					rb, _ := json.Marshal(c06Replay{Program: p, Faults: plan})
					sr.Violations = append(sr.Violations, run.ViolationRec{Property: "C06", Oracle: v.Oracle, Class: v.Class, Disc: disc,
						Detail: fmt.Sprintf("%s\n  fault plan %+v fired=%d\n  program: %s", v.Detail, plan, len(fired), p.Summary(20)), Step: v.Step, Case: idx, Replay: rb})
				}
			}
			if len(sr.Samples) < 2 {
				sr.Samples = append(sr.Samples, map[string]interface{}{"case": idx, "program": p.Summary(10), "clean_run_operation_counts": counts, "plans": len(plans), "first_plans": plans[:min(3, len(plans))]})
			}
		}
		return sr
	}
	ck.Replay = func(body json.RawMessage, scratch string) ([]run.ViolationRec, string) {
		var b c06Replay
		if err := json.Unmarshal(body, &b); err != nil || b.Program == nil {
			return nil, "bad replay body"
		}
		b.Program.Prop = "C06"
		res, _ := runFault(b.Program, b.Faults, scratch, 0)
		var out []run.ViolationRec
		for _, v := range res.Violations {
			out = append(out, run.ViolationRec{Property: "C06", Oracle: v.Oracle, Class: v.Class, Detail: v.Detail, Step: v.Step})
		}
		return out, res.Inconclusive
	}
	run.Register(ck)
}

func min(a, b int) int {
	if a < b {
		return a
	}
	return b
}
