package checks

import (
	"bytes"
	"fmt"
	"hash/fnv"
	"os"
	"path/filepath"
	"runtime"
	"sort"
	"strconv"
	"strings"
	"sync"
	"sync/atomic"
	"time"

	"github.com/anishathalye/porcupine"
	"github.com/couchbase/moss"

	"mossverif/eng"
)

// StressParams describes one free-running concurrent run.
type StressParams struct {
	Seed     uint64
	Cfg      eng.Config
	Writers  int
	Batches  int // per writer
	Keys     int // payload keys per writer and collection
	Children int // 0..2 child collections touched by the writers
	FullRd   int
	HammerRd int
	GetRd    int
	Extras   bool // stats / histograms / notifications / store snapshots (C17)
	Delays   bool
	Porc     bool // also check the recorded history with porcupine
	Filler   int  // unchecked filler keys per batch (bigger segments => longer deferred sorts and merges)
	// ChildOnly: about a third of the batches (never a writer's last one)
	// hold no top-level operation at all, only child batches; the prefix a
	// snapshot shows for a writer is then the largest marker over the
	// top-level collection and the child collections.
	ChildOnly bool `json:",omitempty"`
	// Merge: the collection has the order-sensitive merge operator and about
	// half of the batches append their number to an accumulator key ("acc",
	// top level and child collections) with a Merge operation: the value a
	// snapshot shows must be the fold of exactly the operands of the prefix
	// it shows, in order (lost, doubled or reordered operands change bytes).
	Merge bool `json:",omitempty"`
}

// wstate is the projection of the content on one writer's keys.
type wstate struct {
	top   map[string]string    // key suffix -> value ("" = absent)
	child []map[string]string  // per child
	tag   string
}

func h3(a, b, c int) uint64 {
	h := fnv.New64a()
	fmt.Fprintf(h, "%d/%d/%d", a, b, c)
	return h.Sum64()
}

type stressModel struct {
	p      StressParams
	states [][]*wstate // [writer][prefix]
}

// topMarker is the value of writer w's top-level marker after pn batches
// (differs from pn only with ChildOnly batches).
func (m *stressModel) topMarker(w int, pn int64) int64 {
	v, ok := m.states[w][pn].top["m"]
	if !ok {
		return 0
	}
	n, _ := strconv.Atoi(v)
	return int64(n)
}

func wkey(w int, suffix string) []byte { return []byte(fmt.Sprintf("w%d/%s", w, suffix)) }

// batchOps describes batch number pn (1-based) of writer w.
type sop struct {
	suffix string
	set    bool
	val    string
	merge  bool // Merge(val) instead of Set / Del
}

// applySop applies one operation to a key/value projection.
func applySop(mp map[string]string, o sop) {
	switch {
	case o.merge:
		var ex []byte
		if v, ok := mp[o.suffix]; ok {
			ex = []byte(v)
		}
		mp[o.suffix] = string(eng.MergeFold(nil, ex, []byte(o.val)))
	case o.set:
		mp[o.suffix] = o.val
	default:
		delete(mp, o.suffix)
	}
}

func (m *stressModel) batchOps(w, pn int) (top []sop, child [][]sop) {
	seed := int(m.p.Seed % 1000003)
	childOnly := m.p.ChildOnly && m.p.Children > 0 && pn < m.p.Batches && h3(seed+w, pn, 999)%3 == 0
	forced := -1
	if childOnly {
		forced = int(h3(seed+w, pn, 998) % uint64(m.p.Children))
	} else {
		top = append(top, sop{suffix: "m", set: true, val: strconv.Itoa(pn)})
	}
	for j := 0; j < m.p.Keys && !childOnly; j++ {
		switch h3(seed+w, pn, j) % 4 {
		case 0, 1:
			top = append(top, sop{suffix: "k" + strconv.Itoa(j), set: true, val: fmt.Sprintf("%d.%d", pn, j)})
		case 2:
			top = append(top, sop{suffix: "k" + strconv.Itoa(j)})
		}
	}
	if m.p.Merge && !childOnly && h3(seed+w, pn, 777)%2 == 0 {
		top = append(top, sop{suffix: "acc", val: strconv.Itoa(pn), merge: true})
	}
	child = make([][]sop, m.p.Children)
	for c := 0; c < m.p.Children; c++ {
		if h3(seed+w, pn, 100+c)%2 == 0 && c != forced {
			continue
		}
		child[c] = append(child[c], sop{suffix: "m", set: true, val: strconv.Itoa(pn)})
		if m.p.Merge && h3(seed+w, pn, 780+c)%2 == 0 {
			child[c] = append(child[c], sop{suffix: "acc", val: strconv.Itoa(pn), merge: true})
		}
		for j := 0; j < m.p.Keys; j++ {
			switch h3(seed+w, pn, 200+10*c+j) % 4 {
			case 0, 1:
				child[c] = append(child[c], sop{suffix: "k" + strconv.Itoa(j), set: true, val: fmt.Sprintf("c%d.%d", pn, j)})
			case 2:
				child[c] = append(child[c], sop{suffix: "k" + strconv.Itoa(j)})
			}
		}
	}
	return
}

func newStressModel(p StressParams) *stressModel {
	m := &stressModel{p: p}
	for w := 0; w < p.Writers; w++ {
		cur := &wstate{top: map[string]string{}, child: make([]map[string]string, p.Children)}
		for c := range cur.child {
			cur.child[c] = map[string]string{}
		}
		sts := []*wstate{cur.clone()}
		for pn := 1; pn <= p.Batches; pn++ {
			top, child := m.batchOps(w, pn)
			for _, o := range top {
				applySop(cur.top, o)
			}
			for c, ops := range child {
				for _, o := range ops {
					applySop(cur.child[c], o)
				}
			}
			sts = append(sts, cur.clone())
		}
		m.states = append(m.states, sts)
	}
	return m
}

func (s *wstate) clone() *wstate {
	n := &wstate{top: map[string]string{}, child: make([]map[string]string, len(s.child))}
	for k, v := range s.top {
		n.top[k] = v
	}
	for c := range s.child {
		n.child[c] = map[string]string{}
		for k, v := range s.child[c] {
			n.child[c][k] = v
		}
	}
	return n
}

func (m *stressModel) suffixes() []string {
	out := []string{"m"}
	for j := 0; j < m.p.Keys; j++ {
		out = append(out, "k"+strconv.Itoa(j))
	}
	if m.p.Merge {
		out = append(out, "acc")
	}
	return out
}

func childName(c int) string { return "c" + strconv.Itoa(c) }

// HistEvent is one recorded API call.
type HistEvent struct {
	Proc   int
	Writer int
	Write  bool
	P      int // batch number written / prefix observed
	Call   int64
	Ret    int64
}

// StressResult is what one run observed.
type StressResult struct {
	PrevWalks int64 // SnapshotPrevious steps taken by the extras goroutine
	Violation string
	Class     string
	Detail    string
	Inconc    string

	Snapshots       int64
	SnapsOverlap    int64 // snapshots taken while >= 1 ExecuteBatch was in flight
	Gets            int64
	PrefixVectors   map[string]bool
	WritersBlocked  uint64
	MergerLoops     uint64
	Persists        uint64
	Compactions     uint64
	MaxTop          uint64
	Overlap         map[string]int // op|phase pairs
	TraceSig        string
	Calls           int64
	PorcChecked     int
	PorcUnknown     int
}

// runStress executes one concurrent run and checks it online; the recorded
// per-writer register histories are optionally re-checked with porcupine.
func runStress(p StressParams, scratch string, idx int) *StressResult {
	res := &StressResult{PrefixVectors: map[string]bool{}, Overlap: map[string]int{}}
	dir := filepath.Join(scratch, fmt.Sprintf("stress%06d", idx))
	os.MkdirAll(dir, 0o755)
	defer os.RemoveAll(dir)
	m := newStressModel(p)
	e := eng.NewExec(p.Cfg, dir, false)
	defer e.D.Detach()
	var dseed uint64 = p.Seed
	var phase atomic.Value
	phase.Store("")
	if p.Delays {
		e.D.SetDelay(func(point string) {
			phase.Store(point)
			x := atomic.AddUint64(&dseed, 0x9E3779B97F4A7C15)
			x = (x ^ (x >> 30)) * 0xBF58476D1CE4E5B9
			x ^= x >> 27
			switch x % 10 {
			case 0, 1:
				for i := 0; i < int(x>>8%4)+1; i++ {
					yield()
				}
			case 2:
				time.Sleep(time.Duration(10+(x>>8)%300) * time.Microsecond)
			case 3:
				if strings.HasPrefix(point, "merger.") || strings.HasPrefix(point, "persister.") {
					time.Sleep(time.Duration(100+(x>>8)%2000) * time.Microsecond)
				}
			}
		})
	}
	if p.Cfg.Backing == "custom" && p.Delays && p.Seed%2 == 0 {
		// the application's lower-level snapshots are slow to release
		atomic.StoreInt64(&eng.LowerCloseDelayNS, int64(500+p.Seed%2500)*1000)
		defer atomic.StoreInt64(&eng.LowerCloseDelayNS, 0)
	}
	if err := e.Open(); err != nil {
		res.Inconc = "open: " + err.Error()
		return res
	}
	coll := e.Coll
	var fail atomic.Value // *[3]string
	setFail := func(class, detail string) {
		fail.CompareAndSwap(nil, &[2]string{class, detail})
	}
	failed := func() bool { return fail.Load() != nil }

	started := make([]int64, p.Writers)
	done := make([]int64, p.Writers)
	seen := make([]int64, p.Writers)
	var inflight int64
	var hmu sync.Mutex
	var hist []HistEvent
	rec := func(ev HistEvent) {
		if !p.Porc {
			return
		}
		hmu.Lock()
		hist = append(hist, ev)
		hmu.Unlock()
	}
	var writersDone int32
	var wg sync.WaitGroup
	// ---------------------------------------------------------------- writers
	for w := 0; w < p.Writers; w++ {
		wg.Add(1)
		go func(w int) {
			defer wg.Done()
			defer atomic.AddInt32(&writersDone, 1)
			for pn := 1; pn <= p.Batches && !failed(); pn++ {
				top, child := m.batchOps(w, pn)
				b, err := coll.NewBatch(len(top), 256)
				if err != nil {
					setFail("newbatch-error", err.Error())
					return
				}
				for _, o := range top {
					switch {
					case o.merge:
						b.Merge(wkey(w, o.suffix), []byte(o.val))
					case o.set:
						b.Set(wkey(w, o.suffix), []byte(o.val))
					default:
						b.Del(wkey(w, o.suffix))
					}
				}
				for f := 0; f < p.Filler; f++ {
					// descending order so that the batch really needs sorting
					b.Set([]byte(fmt.Sprintf("w%d/zfill/%06d/%05d", w, pn, p.Filler-f)), []byte("f"))
				}
				for c, ops := range child {
					if ops == nil {
						continue
					}
					cb, err := b.NewChildCollectionBatch(childName(c), moss.BatchOptions{TotalOps: len(ops), TotalKeyValBytes: 256})
					if err != nil {
						setFail("childbatch-error", err.Error())
						return
					}
					for _, o := range ops {
						switch {
						case o.merge:
							cb.Merge(wkey(w, o.suffix), []byte(o.val))
						case o.set:
							cb.Set(wkey(w, o.suffix), []byte(o.val))
						default:
							cb.Del(wkey(w, o.suffix))
						}
					}
				}
				call := eng.Tick()
				atomic.StoreInt64(&started[w], int64(pn))
				atomic.AddInt64(&inflight, 1)
				err = coll.ExecuteBatch(b, moss.WriteOptions{})
				atomic.AddInt64(&inflight, -1)
				if err != nil {
					setFail("executebatch-error", err.Error())
					return
				}
				atomic.StoreInt64(&done[w], int64(pn))
				ret := eng.Tick()
				rec(HistEvent{Proc: w, Writer: w, Write: true, P: pn, Call: call, Ret: ret})
				b.Close()
				atomic.AddInt64(&res.Calls, 1)
			}
		}(w)
	}
	// ---------------------------------------------------------------- readers
	sufs := m.suffixes()
	checkProjection := func(proc int, w int, get func(child int, suffix string) (string, bool, error), full bool, lo, hi int64, lastP *int64, call, ret int64, what string) bool {
		pn := 0
		for c := -1; c < p.Children; c++ {
			if c >= 0 && !p.ChildOnly {
				break // the top-level marker alone names the prefix
			}
			mv, ok, err := get(c, "m")
			if err != nil {
				setFail("read-error", what+": "+err.Error())
				return false
			}
			if ok {
				x, err := strconv.Atoi(mv)
				if err != nil {
					setFail("garbage-marker", fmt.Sprintf("%s: writer %d marker %q", what, w, mv))
					return false
				}
				if x > pn {
					pn = x
				}
			}
		}
		if pn < 0 || pn > p.Batches {
			setFail("garbage-marker", fmt.Sprintf("%s: writer %d marker %d out of range", what, w, pn))
			return false
		}
		if int64(pn) < lo {
			setFail("returned-batch-not-visible", fmt.Sprintf("%s: writer %d: observed prefix %d but batch %d had returned (or been observed by an earlier snapshot) before this call started", what, w, pn, lo))
			return false
		}
		if int64(pn) > hi {
			setFail("future-batch-visible", fmt.Sprintf("%s: writer %d: observed prefix %d but only %d batches had been invoked when the call returned", what, w, pn, hi))
			return false
		}
		if int64(pn) < *lastP {
			setFail("prefix-went-backwards", fmt.Sprintf("%s: writer %d: observed prefix %d after this reader had observed %d", what, w, pn, *lastP))
			return false
		}
		*lastP = int64(pn)
		st := m.states[w][pn]
		chk := func(child int, suffix string) bool {
			v, ok, err := get(child, suffix)
			if err != nil {
				setFail("read-error", what+": "+err.Error())
				return false
			}
			var want string
			var wok bool
			if child < 0 {
				want, wok = st.top[suffix]
			} else {
				want, wok = st.child[child][suffix]
			}
			if ok != wok || v != want {
				where := "top-level"
				if child >= 0 {
					where = "child " + childName(child)
				}
				setFail("torn-batch", fmt.Sprintf("%s: writer %d marker says prefix %d but %s key %s is %q (present=%v), state after %d batches has %q (present=%v)",
					what, w, pn, where, suffix, v, ok, pn, want, wok))
				return false
			}
			return true
		}
		if p.ChildOnly && !chk(-1, "m") {
			return false
		}
		if full {
			for _, s := range sufs[1:] {
				if !chk(-1, s) {
					return false
				}
			}
			for c := 0; c < p.Children; c++ {
				for _, s := range sufs {
					if !chk(c, s) {
						return false
					}
				}
			}
		} else {
			j := int(call) % len(sufs)
			if !chk(-1, sufs[j]) {
				return false
			}
			if p.Children > 0 {
				if !chk(int(call)%p.Children, "m") || !chk(int(call)%p.Children, sufs[j]) {
					return false
				}
				for c := 0; c < p.Children && p.ChildOnly; c++ {
					if !chk(c, "m") {
						return false
					}
				}
			}
		}
		rec(HistEvent{Proc: proc, Writer: w, P: pn, Call: call, Ret: ret})
		// publish for cross-reader monotonicity
		for {
			old := atomic.LoadInt64(&seen[w])
			if int64(pn) <= old || atomic.CompareAndSwapInt64(&seen[w], old, int64(pn)) {
				break
			}
		}
		return true
	}
	snapReader := func(proc int, full bool) {
		defer wg.Done()
		last := make([]int64, p.Writers)
		for !failed() {
			fin := atomic.LoadInt32(&writersDone) == int32(p.Writers)
			lo := make([]int64, p.Writers)
			for w := range lo {
				lo[w] = atomic.LoadInt64(&done[w])
				if s := atomic.LoadInt64(&seen[w]); s > lo[w] {
					lo[w] = s
				}
			}
			ovl := atomic.LoadInt64(&inflight) > 0
			ph0 := phase.Load().(string)
			call := eng.Tick()
			snap, err := coll.Snapshot()
			ret := eng.Tick()
			if err != nil {
				setFail("snapshot-error", err.Error())
				return
			}
			hi := make([]int64, p.Writers)
			for w := range hi {
				hi[w] = atomic.LoadInt64(&started[w])
			}
			if ovl || atomic.LoadInt64(&inflight) > 0 {
				atomic.AddInt64(&res.SnapsOverlap, 1)
			}
			atomic.AddInt64(&res.Snapshots, 1)
			csnaps := make([]moss.Snapshot, p.Children)
			vec := make([]string, 0, p.Writers)
			okAll := true
			var itm map[string]string
			var citm []map[string]string
			if full {
				// iteration view must agree with the Get view
				keys, vals, err := eng.IterAll(snap, nil, nil, moss.IteratorOptions{})
				if err != nil {
					setFail("iter-error", err.Error())
					snap.Close()
					return
				}
				itm = map[string]string{}
				for i, k := range keys {
					itm[k] = string(vals[i])
				}
			}
			for c := 0; c < p.Children; c++ {
				cs, err := snap.ChildCollectionSnapshot(childName(c))
				if err != nil {
					setFail("child-snapshot-error", err.Error())
					okAll = false
					break
				}
				csnaps[c] = cs
				if full && cs != nil {
					keys, vals, err := eng.IterAll(cs, nil, nil, moss.IteratorOptions{})
					if err != nil {
						setFail("iter-error", err.Error())
						okAll = false
						break
					}
					mm := map[string]string{}
					for i, k := range keys {
						mm[k] = string(vals[i])
					}
					citm = append(citm, mm)
				} else if full {
					citm = append(citm, map[string]string{})
				}
			}
			for w := 0; w < p.Writers && okAll; w++ {
				get := func(child int, suffix string) (string, bool, error) {
					s := snap
					if child >= 0 {
						s = csnaps[child]
						if s == nil {
							return "", false, nil
						}
					}
					k := wkey(w, suffix)
					v, err := s.Get(k, moss.ReadOptions{})
					atomic.AddInt64(&res.Gets, 1)
					if err != nil {
						return "", false, err
					}
					if full {
						var iv string
						var iok bool
						if child < 0 {
							iv, iok = itm[string(k)]
						} else {
							iv, iok = citm[child][string(k)]
						}
						if iok != (v != nil) || (iok && iv != string(v)) {
							return "", false, fmt.Errorf("Get and iteration of the same snapshot disagree on %q: Get=%q iter=%q(%v)", k, v, iv, iok)
						}
					}
					return string(v), v != nil, nil
				}
				if !checkProjection(proc, w, get, full, lo[w], hi[w], &last[w], call, ret, "Snapshot") {
					okAll = false
				}
				vec = append(vec, strconv.FormatInt(last[w], 10))
			}
			for _, cs := range csnaps {
				if cs != nil {
					cs.Close()
				}
			}
			snap.Close()
			if !okAll {
				return
			}
			ph1 := phase.Load().(string)
			hmu.Lock()
			res.PrefixVectors[strings.Join(vec, ",")] = true
			if ph1 != "" {
				res.Overlap["Snapshot|"+ph1]++
			}
			_ = ph0
			hmu.Unlock()
			atomic.AddInt64(&res.Calls, 1)
			if fin {
				return
			}
		}
	}
	getReader := func(proc int) {
		defer wg.Done()
		last := make([]int64, p.Writers)
		for !failed() {
			fin := atomic.LoadInt32(&writersDone) == int32(p.Writers)
			for w := 0; w < p.Writers; w++ {
				lo := atomic.LoadInt64(&done[w])
				call := eng.Tick()
				v, err := coll.Get(wkey(w, "m"), moss.ReadOptions{})
				ret := eng.Tick()
				hi := atomic.LoadInt64(&started[w])
				if err != nil {
					setFail("get-error", err.Error())
					return
				}
				pn := 0
				if v != nil {
					pn, _ = strconv.Atoi(string(v))
				}
				if p.ChildOnly {
					// the top-level marker moves only with batches that touch the top level
					lo, hi = m.topMarker(w, lo), m.topMarker(w, hi)
				}
				if int64(pn) < lo {
					setFail("returned-batch-not-visible", fmt.Sprintf("Collection.Get: writer %d marker %d but batch %d had returned before the call", w, pn, lo))
					return
				}
				if int64(pn) > hi {
					setFail("future-batch-visible", fmt.Sprintf("Collection.Get: writer %d marker %d but only %d invoked", w, pn, hi))
					return
				}
				if int64(pn) < last[w] {
					setFail("prefix-went-backwards", fmt.Sprintf("Collection.Get: writer %d marker %d after %d", w, pn, last[w]))
					return
				}
				last[w] = int64(pn)
				_ = call
				_ = ret
				atomic.AddInt64(&res.Gets, 1)
			}
			atomic.AddInt64(&res.Calls, 1)
			if fin {
				return
			}
		}
	}
	proc := p.Writers
	for i := 0; i < p.FullRd; i++ {
		wg.Add(1)
		go snapReader(proc, true)
		proc++
	}
	for i := 0; i < p.HammerRd; i++ {
		wg.Add(1)
		go snapReader(proc, false)
		proc++
	}
	for i := 0; i < p.GetRd; i++ {
		wg.Add(1)
		go getReader(proc)
		proc++
	}
	// ---------------------------------------------------------------- extras (C17)
	stopExtras := make(chan struct{})
	var ewg sync.WaitGroup
	if p.Extras {
		ewg.Add(1)
		go func() {
			defer ewg.Done()
			nt := coll.(interface {
				NotifyMerger(string, bool) error
			})
			for i := 0; ; i++ {
				select {
				case <-stopExtras:
					return
				default:
				}
				st, _ := coll.Stats()
				if st != nil && st.CurDirtyTopSegments > res.MaxTop {
					res.MaxTop = st.CurDirtyTopSegments
				}
				coll.Histograms()
				coll.Options()
				if i%3 == 0 {
					nt.NotifyMerger("verif", false)
				}
				if i%7 == 0 {
					nt.NotifyMerger("mergeAll", false)
				}
				if e.Store != nil {
					e.Store.Stats()
					e.Store.Histograms()
					if s, err := e.Store.Snapshot(); err == nil && s != nil {
						s.Get(wkey(0, "m"), moss.ReadOptions{})
						if it, err := s.StartIterator(nil, nil, moss.IteratorOptions{}); err == nil && it != nil {
							it.Current()
							it.Next()
							it.Close()
						}
						if i%5 == 0 {
							// walk the store's history a few footers back
							// while the persister keeps appending to the file
							cur, own := s, false
							for d := 0; d < 3 && cur != nil; d++ {
								prev, err := e.Store.SnapshotPrevious(cur)
								if own {
									cur.Close()
								}
								if err != nil || prev == nil {
									cur, own = nil, false
									break
								}
								prev.Get(wkey(0, "m"), moss.ReadOptions{})
								if p.Children > 0 {
									if cs, err := prev.ChildCollectionSnapshot(childName(0)); err == nil && cs != nil {
										cs.Get(wkey(0, "m"), moss.ReadOptions{})
										cs.Close()
									}
								}
								cur, own = prev, true
								atomic.AddInt64(&res.PrevWalks, 1)
							}
							if own && cur != nil {
								cur.Close()
							}
						}
						s.Close()
					}
				}
				atomic.AddInt64(&res.Calls, 1)
				time.Sleep(50 * time.Microsecond)
			}
		}()
	} else {
		ewg.Add(1)
		go func() { // light stats sampler (writers blocked, max top)
			defer ewg.Done()
			for {
				select {
				case <-stopExtras:
					return
				default:
				}
				st, _ := coll.Stats()
				if st != nil && st.CurDirtyTopSegments > res.MaxTop {
					res.MaxTop = st.CurDirtyTopSegments
				}
				time.Sleep(200 * time.Microsecond)
			}
		}()
	}
	// ---------------------------------------------------------------- wait
	waitCh := make(chan struct{})
	go func() { wg.Wait(); close(waitCh) }()
	// The watchdog is about progress, not duration: on an oversubscribed
	// machine a run may legitimately take minutes.  It fires when no writer
	// has completed a batch for 60 s (or after 15 minutes in any case).
	stalled := false
	{
		hardStop := time.Now().Add(15 * time.Minute)
		lastSum, lastChange := int64(-1), time.Now()
	waiting:
		for {
			select {
			case <-waitCh:
				break waiting
			case <-time.After(time.Second):
			}
			sum := int64(atomic.LoadInt32(&writersDone))
			for w := range done {
				sum += atomic.LoadInt64(&done[w])
			}
			if sum != lastSum {
				lastSum, lastChange = sum, time.Now()
			}
			if time.Since(lastChange) > 60*time.Second || time.Now().After(hardStop) {
				stalled = true
				break waiting
			}
		}
	}
	if stalled {
		close(stopExtras)
		time.Sleep(50 * time.Millisecond)
		atomic.StoreInt32(&eng.Tainted, 1)
		res.Inconc = "watchdog: no writer completed a batch for 60 s (or the run exceeded 15 min)"
		q, gs := eng.Quiescent(300 * time.Millisecond)
		if q {
			var txt []string
			for _, g := range gs {
				txt = append(txt, g.Text)
			}
			res.Inconc = ""
			res.Class = "hang"
			res.Violation = "hang"
			res.Detail = "writers/readers still pending while every moss goroutine is blocked:\n" + strings.Join(txt, "\n\n")
		}
		return res
	}
	close(stopExtras)
	ewg.Wait()
	if f := fail.Load(); f != nil {
		ff := f.(*[2]string)
		res.Violation, res.Class, res.Detail = ff[0], ff[0], ff[1]
	}
	st, _ := coll.Stats()
	if st != nil {
		res.WritersBlocked = st.TotExecuteBatchWaitBeg
		res.MergerLoops = st.TotMergerLoop
	}
	if e.Store != nil {
		res.Persists = e.StoreStat("total_persists")
		res.Compactions = e.StoreStat("total_compactions") + e.StoreStat("total_compactions_partial")
	}
	res.TraceSig = e.D.TraceSignature(64)

	// final state: everything visible
	if res.Violation == "" {
		snap, err := coll.Snapshot()
		if err == nil {
			for w := 0; w < p.Writers; w++ {
				v, _ := snap.Get(wkey(w, "m"), moss.ReadOptions{})
				if string(v) != strconv.Itoa(p.Batches) {
					res.Violation, res.Class = "final-state", "final-state"
					res.Detail = fmt.Sprintf("after all writers finished, writer %d marker is %q, want %d", w, v, p.Batches)
				}
			}
			snap.Close()
		}
	}
	if err := e.CloseAll(); err != nil && res.Violation == "" {
		res.Violation, res.Class, res.Detail = "close-error", "close-error", err.Error()
	}
	if n := e.BgErrCount(); n > 0 && res.Violation == "" {
		res.Violation, res.Class, res.Detail = "unprovoked-background-error", "unprovoked-background-error", e.LastBgErr()
	}
	// ---------------------------------------------------------------- porcupine second opinion
	if p.Porc && res.Violation == "" {
		checkPorcupine(hist, p.Writers, res)
	}
	return res
}

type regIn struct {
	Writer int
	Write  bool
	P      int
}

func checkPorcupine(hist []HistEvent, writers int, res *StressResult) {
	model := porcupine.Model{
		Partition: func(history []porcupine.Operation) [][]porcupine.Operation {
			parts := map[int][]porcupine.Operation{}
			for _, op := range history {
				w := op.Input.(regIn).Writer
				parts[w] = append(parts[w], op)
			}
			var ks []int
			for k := range parts {
				ks = append(ks, k)
			}
			sort.Ints(ks)
			var out [][]porcupine.Operation
			for _, k := range ks {
				out = append(out, parts[k])
			}
			return out
		},
		Init: func() interface{} { return 0 },
		Step: func(state, input, output interface{}) (bool, interface{}) {
			in := input.(regIn)
			if in.Write {
				return true, in.P
			}
			return output.(int) == state.(int), state
		},
		Equal: func(a, b interface{}) bool { return a.(int) == b.(int) },
	}
	// bound the size: porcupine is exponential in the worst case
	if len(hist) > 6000 {
		hist = hist[:6000]
		// keep only complete prefixes: reads of later writes would be illegal
		maxW := map[int]int{}
		for _, h := range hist {
			if h.Write && h.P > maxW[h.Writer] {
				maxW[h.Writer] = h.P
			}
		}
		var nh []HistEvent
		for _, h := range hist {
			if h.Write || h.P <= maxW[h.Writer] {
				nh = append(nh, h)
			}
		}
		hist = nh
	}
	var ops []porcupine.Operation
	for _, h := range hist {
		ops = append(ops, porcupine.Operation{ClientId: h.Proc, Input: regIn{h.Writer, h.Write, h.P}, Call: h.Call, Output: h.P, Return: h.Ret})
	}
	r := porcupine.CheckOperationsTimeout(model, ops, 20*time.Second)
	res.PorcChecked += len(ops)
	switch r {
	case porcupine.Illegal:
		res.Violation, res.Class = "checker-disagreement", "checker-disagreement"
		res.Detail = "porcupine found the per-writer register history not linearizable although the online interval checker accepted it"
	case porcupine.Unknown:
		res.PorcUnknown++
	}
}

func yield() { runtime.Gosched() }

var _ = bytes.Equal
