package checks

import (
	"encoding/json"
	"fmt"
	"os"
	"path/filepath"
	"sort"
	"strings"
	"sync"
	"time"

	"github.com/couchbase/moss"

	"mossverif/eng"
	"mossverif/model"
	"mossverif/run"
)

type c05Replay struct {
	Program *eng.Program
	Image   eng.CrashImage
}

// roundMark is a completed persistence round in the trace.
type roundMark struct {
	At   int         // trace index of the marker
	Kind string      // round kind / close / reopen / revert
	Tree *model.Coll // content the store exposed at that moment
	Hash string
}

// enumerateImages lists the images to try for one trace.
func enumerateImages(trace []eng.FOp, r *eng.Rng, killOnly bool, perPoint int, maxPoints int) []eng.CrashImage {
	var pts []int
	// long histories (fat-footer programs): what differs from the short ones
	// is only the tail, where the footer spans several page blocks
	from, nm := 0, 0
	for i := len(trace) - 1; i >= 0; i-- {
		if trace[i].Kind == "mark" {
			nm++
			if nm == 40 {
				break
			}
			if nm == 8 {
				from = i
			}
		}
	}
	if nm < 40 {
		from = 0
	}
	for i, op := range trace {
		if i < from {
			continue
		}
		switch op.Kind {
		case "write", "sync", "create", "unlink", "close":
			pts = append(pts, i)
		}
	}
	if maxPoints > 0 && len(pts) > maxPoints {
		// deterministic thinning that keeps the tail dense
		st := len(pts)/maxPoints + 1
		var np []int
		for i := 0; i < len(pts); i += st {
			np = append(np, pts[i])
		}
		// always keep the first two operations after each state marker: the
		// window right after a round / close / revert reported completion
		keep := map[int]bool{}
		for _, x := range np {
			keep[x] = true
		}
		nmarks, seenMarks := 0, 0
		for _, op := range trace {
			if op.Kind == "mark" {
				nmarks++
			}
		}
		for i, op := range trace {
			if op.Kind != "mark" {
				continue
			}
			seenMarks++
			if nmarks-seenMarks >= 16 {
				continue // long histories: only the windows of the last 16 markers
			}
			n := 0
			for j := i + 1; j < len(trace) && n < 2; j++ {
				switch trace[j].Kind {
				case "write", "sync", "create", "unlink", "close":
					keep[j] = true
					n++
				}
			}
		}
		// and the last writes that span three or more page blocks (fat
		// footers): their "hole" images are the only ones whose framing
		// survives while the content does not
		nfat := 0
		for j := len(trace) - 1; j >= 0 && nfat < 4; j-- {
			if spansPages(trace[j]) >= 3 {
				keep[j] = true
				nfat++
			}
		}
		np = np[:0]
		for x := range keep {
			np = append(np, x)
		}
		sort.Ints(np)
		pts = np
	}
	// crash points between a completed revert and the next write
	afterRevert := map[int]bool{}
	for i, op := range trace {
		if op.Kind == "mark" && strings.Contains(op.Note, "revert") {
			for j := i + 1; j < len(trace) && trace[j].Kind != "write" && trace[j].Kind != "create"; j++ {
				afterRevert[j] = true
			}
		}
	}
	var out []eng.CrashImage
	for _, p := range pts {
		op := trace[p]
		out = append(out, eng.CrashImage{Point: p, Torn: -1, Kind: "all"})
		if op.Kind == "write" && op.N > 0 {
			offs := []int{0, 1, 27, 28, 29, op.N / 2, eng.PageSize - 1, eng.PageSize, eng.PageSize + 1, op.N - 1}
			seen := map[int]bool{}
			cnt := 0
			for _, t := range offs {
				if t < 0 || t >= op.N || seen[t] {
					continue
				}
				seen[t] = true
				if cnt >= perPoint && !(t == 0 || t == op.N-1) {
					continue
				}
				cnt++
				out = append(out, eng.CrashImage{Point: p, Torn: t, Kind: "torn"})
			}
		}
		if killOnly {
			// SnapshotRevert promises durability by itself, whatever the
			// collection's NoSync setting: right after a revert completed the
			// power-loss view (only synced content) must show it as well.
			if afterRevert[p] {
				out = append(out, eng.CrashImage{Point: p, Torn: -1, Kind: "none-after-revert"})
			}
			continue
		}
		if spansPages(op) >= 3 {
			out = append(out, eng.CrashImage{Point: p, Torn: -1, Kind: "hole"})
		}
		out = append(out, eng.CrashImage{Point: p, Torn: -1, Kind: "none"})
		out = append(out, eng.CrashImage{Point: p, Torn: -1, Kind: "zero-extend"})
		for j := 0; j < perPoint; j++ {
			out = append(out, eng.CrashImage{Point: p, Torn: -1, Kind: "subset", Subset: r.U64()})
		}
		if op.Kind == "write" && op.N > 0 {
			for _, cl := range []int64{op.Off + 1, op.Off + 28, op.Off + int64(op.N)/2, op.Off + int64(op.N) - 1} {
				out = append(out, eng.CrashImage{Point: p, Torn: -1, Kind: "cut", CutFile: op.Name, CutLen: cl})
			}
		}
	}
	return out
}

// spansPages returns the number of page blocks a successful write touches.
func spansPages(op eng.FOp) int {
	if op.Kind != "write" || op.N <= 0 {
		return 0
	}
	return int((op.Off+int64(op.N)-1)/eng.PageSize-op.Off/eng.PageSize) + 1
}

// recordTrace runs the program through the recording substrate.
func recordTrace(p *eng.Program, scratch string, idx int) (trace []eng.FOp, marks []roundMark, world *model.World, uni *eng.Universe, err string) {
	dir := filepath.Join(scratch, fmt.Sprintf("rec%06d", idx))
	os.MkdirAll(dir, 0o755)
	defer os.RemoveAll(dir)
	fs := eng.NewFS()
	fs.KeepData = true
	fs.Activate()
	defer eng.DeactivateFS()
	r := eng.NewRunner(p, eng.Oracles{Store: true}, dir)
	r.E.FS = fs
	r.E.D.SetOnCross(func(point string) {
		if strings.HasPrefix(point, "store.") {
			fs.SetPhase(point)
		}
	})
	r.OnState = func(tree *model.Coll, kind string) {
		fs.Mark("state after " + kind)
		marks = append(marks, roundMark{At: fs.Len() - 1, Kind: kind, Tree: tree.Clone(), Hash: tree.Hash()})
	}
	res := r.Run()
	eng.WaitQuiescent(r.E.D.Watchdog)
	if res.Inconclusive != "" {
		return nil, nil, nil, nil, res.Inconclusive
	}
	if len(res.Violations) > 0 {
		return nil, nil, nil, nil, "recording run reported: " + res.Violations[0].String()
	}
	return append([]eng.FOp{}, fs.Trace...), marks, r.E.World, r.E.Uni, ""
}

func opKindAt(trace []eng.FOp, img eng.CrashImage) string {
	op := trace[img.Point]
	k := op.Kind
	if op.Phase != "" {
		k += "@" + strings.TrimPrefix(op.Phase, "store.")
	}
	return k
}

// checkImage opens one image and applies the oracle.
func checkImage(cfg eng.Config, world *model.World, uni *eng.Universe, marks []roundMark, trace []eng.FOp, img eng.CrashImage,
	files map[string][]byte, dir string, sr *run.ShardResult) (class, disc, detail string) {
	os.RemoveAll(dir)
	os.MkdirAll(dir, 0o755)
	defer os.RemoveAll(dir)
	var names []string
	for n, c := range files {
		if err := os.WriteFile(filepath.Join(dir, n), c, 0o600); err != nil {
			return "harness", "", err.Error()
		}
		names = append(names, fmt.Sprintf("%s(%d)", n, len(c)))
	}
	sort.Strings(names)
	// The state exposed at the last marker before the crash point, and the
	// state of the next marker (the round, close or revert in flight): a
	// crash must leave exactly one of the two.
	before := &roundMark{Kind: "initial", Tree: model.New(), Hash: model.New().Hash()}
	var after *roundMark
	nbefore := 0
	for i := range marks {
		if marks[i].At <= img.Point {
			before = &marks[i]
			nbefore = i + 1
		} else {
			after = &marks[i]
			break
		}
	}
	kmin := nbefore
	disc = opKindAt(trace, img) + "/" + img.Kind
	so := cfg.StoreOptions()
	so.CollectionOptions = cfg.CollectionOptions()
	var bgMu sync.Mutex
	var bgErrs []string
	so.CollectionOptions.OnError = func(err error) { bgMu.Lock(); bgErrs = append(bgErrs, err.Error()); bgMu.Unlock() }
	bgList := func() []string { bgMu.Lock(); defer bgMu.Unlock(); return append([]string{}, bgErrs...) }
	var store *moss.Store
	var coll moss.Collection
	oerr := eng.Safe(func() error {
		var err error
		store, coll, err = moss.OpenStoreCollection(dir, so, cfg.PersistOptions())
		return err
	})
	where := fmt.Sprintf("crash after op %d (%s %s off=%d len=%d) image=%s torn=%d files=%v kmin=%d", img.Point, trace[img.Point].Kind, trace[img.Point].Name,
		trace[img.Point].Off, trace[img.Point].Len, img.Kind, img.Torn, names, kmin)
	if oerr != nil {
		cl := "open-failed"
		es := oerr.Error()
		switch {
		case eng.IsFault(oerr):
			cl = "open-panicked"
		case strings.Contains(es, "could not open/parse any file"):
			cl = "open-failed/no-file-parsable"
			if kmin == 0 || onlyEmptyBefore(marks, nbefore) {
				cl = "open-failed/no-file-parsable/before-first-durable-round"
			}
		case strings.Contains(es, "EOF"):
			cl = "open-failed/eof"
		case strings.Contains(es, "readHeader"):
			cl = "open-failed/header"
		}
		return cl, disc, where + ": " + firstLine(es)
	}
	closeBoth := func() {
		eng.Safe(func() error { coll.Close(); return nil })
		eng.Safe(func() error { store.Close(); return nil })
	}
	var t *model.Coll
	rerr := eng.Safe(func() error {
		s, err := coll.Snapshot()
		if err != nil {
			return err
		}
		defer s.Close()
		t, err = eng.ReadTree(s)
		return err
	})
	if rerr != nil {
		closeBoth()
		cl := "read-error"
		if eng.IsFault(rerr) {
			cl = "read-fault"
		}
		return cl, disc, where + ": " + firstLine(rerr.Error())
	}
	h := t.Hash()
	var base *model.Coll
	switch {
	case h == before.Hash:
		base = before.Tree
		sr.Counters["images.state_before"]++
	case after != nil && h == after.Hash:
		base = after.Tree
		sr.Counters["images.state_after"]++
	default:
		closeBoth()
		older := false
		for i := 0; i < nbefore-1; i++ {
			if marks[i].Hash == h {
				older = true
			}
		}
		if older {
			return "older-than-durable", disc, where + fmt.Sprintf(": the reopened content is that of an earlier state than the one exposed by the last completed %s before the crash point", before.Kind)
		}
		m := eng.DiffTree(t, before.Tree, nil)
		return "not-a-prefix", disc, where + fmt.Sprintf(": reopened content is neither the state exposed before the crash point (after %s) nor the one after the step in flight; vs the former: %v", before.Kind, m)
	}
	sr.Units[disc]++
	sr.Counters["images.opened"]++
	// usable: one more batch, persisted, reopened
	extra := &model.Batch{Ops: []model.Op{{Kind: 'S', Key: []byte("after-crash"), Val: []byte(fmt.Sprintf("v%d", img.Point))}}}
	uerr := eng.Safe(func() error {
		b, err := coll.NewBatch(0, 0)
		if err != nil {
			return err
		}
		b.Set(extra.Ops[0].Key, extra.Ops[0].Val)
		if err := coll.ExecuteBatch(b, moss.WriteOptions{}); err != nil {
			return err
		}
		b.Close()
		return nil
	})
	if uerr != nil {
		closeBoth()
		return "unusable-after-crash", disc, where + ": " + uerr.Error()
	}
	// wait (bounded, logical) for persistence: poll stats with sync notifications
	nt := coll.(interface {
		NotifyMerger(string, bool) error
	})
	deadline := time.Now().Add(20 * time.Second)
	drained := false
	for time.Now().Before(deadline) {
		answered := make(chan struct{})
		go func() { nt.NotifyMerger("verif", true); close(answered) }()
		select {
		case <-answered:
		case <-time.After(20 * time.Second):
			closeBoth()
			return "inconclusive", disc, "a synchronous merger notification was not answered within the watchdog"
		}
		st, _ := coll.Stats()
		if len(bgList()) > 0 {
			break
		}
		if st != nil && st.CurDirtyOps == 0 && st.CurDirtySegments == 0 {
			drained = true
			break
		}
		time.Sleep(100 * time.Microsecond)
	}
	closeBoth()
	if bg := bgList(); len(bg) > 0 {
		return "persist-error-after-crash", disc, where + ": " + firstLine(bg[0])
	}
	if !drained {
		return "inconclusive", disc, "persistence of the post-crash batch did not finish within the watchdog"
	}
	if !eng.WaitQuiescent(20e9) {
		return "inconclusive", disc, "pending goroutines"
	}
	want := base.Clone()
	want.Apply(extra, eng.MergeFold)
	var t2 *model.Coll
	oerr = eng.Safe(func() error {
		st2, c2, err := moss.OpenStoreCollection(dir, so, cfg.PersistOptions())
		if err != nil {
			return err
		}
		defer st2.Close()
		defer c2.Close()
		s, err := c2.Snapshot()
		if err != nil {
			return err
		}
		defer s.Close()
		t2, err = eng.ReadTree(s)
		return err
	})
	if oerr != nil {
		return "second-reopen-failed", disc, where + ": " + firstLine(oerr.Error())
	}
	if m := eng.DiffTree(t2, want, nil); m != nil {
		// the extra batch may legitimately be lost only if the wait loop gave up
		return "content-after-crash-and-write", disc, where + ": " + m.String()
	}
	eng.WaitQuiescent(20e9)
	sr.Counters["images.usable"]++
	return "", disc, ""
}

// onlyEmptyBefore reports whether every state marked before the crash point
// was still the empty content (nothing had been made durable yet).
func onlyEmptyBefore(marks []roundMark, n int) bool {
	e := model.New().Hash()
	for i := 0; i < n; i++ {
		if marks[i].Hash != e {
			return false
		}
	}
	return true
}

func min3(x int) int {
	if x > 3 {
		return 3
	}
	return x
}

func firstLine(s string) string {
	if i := strings.IndexByte(s, '\n'); i >= 0 {
		s = s[:i]
	}
	if len(s) > 300 {
		s = s[:300]
	}
	return s
}

func genC05Program(r *eng.Rng, th bool) *eng.Program {
	cfg := eng.GenConfig(r, "store", false)
	cfg.KeepFiles = false
	cfg.MaxDirtyOps, cfg.MaxDirtyKeyValBytes = 0, 0
	gp := eng.GenParams{MinBatches: 3, MaxBatches: 7, NKeys: 5 + r.Intn(6), Children: r.Chance(1, 3), Idle: true}
	if r.Chance(1, 3) {
		gp.Keys = hostileKeyPool(r)
		if r.Chance(1, 2) {
			gp.Keys = magicKeyPool(r)
		}
		gp.HostileVals = true
	}
	if th {
		gp.MaxBatches = 10
	}
	if r.Chance(1, 3) {
		eng.PartialCompactionProfile(r, &cfg, &gp)
		gp.FirstWide = 200 + r.Intn(300)
		gp.MaxBatches = 8
	}
	fat := r.Chance(1, 8)
	if fat {
		// fat footers: dozens of appended rounds without any compaction, so
		// that the footer's JSON spans three or more page blocks
		cfg.Concern, cfg.NoSync = 0, false
		gp = eng.GenParams{MinBatches: 80, MaxBatches: 80 + r.Intn(40), NKeys: 5 + r.Intn(6), Children: true, NoPersistSteps: true, SmallVals: true}
	}
	withRevert := !gp.Lean && !fat && r.Chance(1, 3)
	if withRevert {
		// history (and so a revert target other than the current state)
		// only exists while no compaction rewrites the file
		cfg.Concern = 0
		gp.Idle = false
	}
	p := eng.GenProgram(r, "C05", cfg, gp)
	// make sure the data gets persisted, with a caught-up reopen in the middle sometimes
	var steps []eng.Step
	for i, s := range p.Steps {
		steps = append(steps, s)
		if s.K == "batch" && !gp.Lean && (fat || r.Chance(1, 2)) {
			steps = append(steps, eng.Step{K: "merge", A: "plain"}, eng.Step{K: "persist"})
		}
		if i == len(p.Steps)/2 && r.Chance(1, 3) {
			steps = append(steps, eng.Step{K: "reopen", A: "caughtup"})
		}
		if s.K == "batch" && i > 2 && !fat && r.Chance(1, 6) {
			// a value that is an exact image of an older footer of this very
			// file, placed at a page start (see Runner, "footerimage")
			uv := []byte(fmt.Sprintf("fimg-%d-%d", i, r.Intn(1<<30)))
			steps = append(steps, eng.Step{K: "merge", A: "plain"}, eng.Step{K: "persist"},
				eng.Step{K: "batch", A: "footerimage", B: &model.Batch{Ops: []model.Op{{Kind: 'S', Key: []byte{}, Val: uv}}}},
				eng.Step{K: "merge", A: "plain"}, eng.Step{K: "persist"})
		}
		if withRevert && s.K == "batch" && i > 3 && r.Chance(1, 3) {
			steps = append(steps, eng.Step{K: "merge", A: "plain"}, eng.Step{K: "persist"}, eng.Step{K: "revert", N: 1 + r.Intn(3)})
		}
	}
	steps = append(steps, eng.Step{K: "drain"})
	p.Steps = steps
	return p
}

func init() {
	ck := &run.Check{
		Prop:  "C05",
		Level: "fault_enumeration",
		Rule: "each steered store program (appends, partial and full compactions, idle compactions, child collections, hostile keys/values resembling the footer framing, caught-up reopens) is executed once through a recording File substrate (every create/open/WriteAt with data/Sync/close, unlinks via the verifOnRemove hook, a marker with the exposed prefix after each completed round); for every crash point (after each write, sync, create, unlink, close) disk images allowed by the property's model are materialised as real directories and opened by the real code: all un-synced writes applied; none; length extended with zeros; seeded random subsets of page blocks; the last write torn at {0,1,27,28,29,mid,4095,4096,4097,len-1}; file length cut inside the last write (NoSync traces: kill-only = everything in order, last write torn). Oracle: open succeeds, content hash is a prefix state, prefix >= that of the last round completed before the crash point, and the store accepts one more batch, persists it and reopens to prefix+batch. distinct_nontrivial = distinct (operation kind @ store phase at the crash point / image kind) pairs whose image was opened and verified.",
		MinUnits:    12,
		Assumptions: []string{"crash model as stated in the property: directory operations ordered and durable, data page-granular before Sync, nothing promised against power loss with NoSync (kill-only images for those traces)", "the recording run itself must be violation free (Store oracle on)"},
	}
	ck.Run = func(c *run.Ctx) *run.ShardResult {
		sr := run.NewShardResult()
		n, perPoint, maxPoints := 32, 2, 60
		if c.Thorough() {
			n, perPoint, maxPoints = 480, 4, 0
		}
		for idx := 0; idx < n; idx++ {
			if !c.Mine(idx) {
				continue
			}
			if sr.Bail() {
				break
			}
			rg := eng.NewRng(c.CaseSeed(idx))
			p := genC05Program(rg, c.Thorough())
			p.Prop = "C05"
			c.Progress(idx, c05Replay{Program: p})
			trace, marks, world, uni, e := recordTrace(p, c.Scratch, idx)
			if e != "" {
				sr.Evaluations++
				sr.Inconclusive = append(sr.Inconclusive, fmt.Sprintf("trace %d: %s", idx, e))
				continue
			}
			killOnly := p.Cfg.NoSync
			images := enumerateImages(trace, rg, killOnly, perPoint, maxPoints)
			if c.Verbose {
				for i, op := range trace {
					if op.Kind == "mark" && strings.Contains(op.Note, "revert") {
						fmt.Printf("trace %d nosync=%v revert mark at %d:", idx, killOnly, i)
						for j := i - 3; j < i+8 && j < len(trace); j++ {
							if j >= 0 {
								fmt.Printf(" [%d %s %s %d+%d %s]", j, trace[j].Kind, trace[j].Name, trace[j].Off, trace[j].Len, trace[j].Note)
							}
						}
						fmt.Println()
						for _, im := range images {
							if im.Point > i && im.Point < i+6 {
								fmt.Printf("   image point=%d kind=%s\n", im.Point, im.Kind)
							}
						}
					}
				}
			}
			sr.Counters["traces"]++
			if len(marks) >= 40 {
				sr.Counters["traces.long_history"]++
				mx := 0
				for _, op := range trace {
					if strings.HasSuffix(op.Phase, ".segments") && spansPages(op) > mx {
						mx = spansPages(op)
					}
				}
				sr.Counters[fmt.Sprintf("traces.long_history.footer_pages=%d", mx)]++
			}
			for _, im := range images {
				sr.Counters["images."+im.Kind]++
				if im.Kind == "hole" && strings.HasSuffix(trace[im.Point].Phase, ".segments") {
					sr.Counters["images.hole.footer"]++
				}
			}
			sr.Counters["trace.ops"] += int64(len(trace))
			sr.Counters["crash.states_marked"] += int64(len(marks))
			for _, m := range marks {
				sr.Counters["crash.marks."+m.Kind]++
			}
			if killOnly {
				sr.Counters["traces.killonly"]++
			}
			idir := filepath.Join(c.Scratch, fmt.Sprintf("img%06d", idx))
			seenClass := map[string]bool{}
			for _, img := range images {
				if sr.Bail() {
					break
				}
				files := eng.BuildImage(trace, img, killOnly)
				c.Progress(idx, c05Replay{Program: p, Image: img})
				cls, disc, det := checkImage(p.Cfg, world, uni, marks, trace, img, files, idir, sr)
				sr.Evaluations++
				if cls == "inconclusive" || cls == "harness" {
					sr.Inconclusive = append(sr.Inconclusive, fmt.Sprintf("trace %d: %s", idx, det))
					continue
				}
				if cls != "" {
					if seenClass[cls+disc] {
						continue
					}
					seenClass[cls+disc] = true
					rb, _ := json.Marshal(c05Replay{Program: p, Image: img})
					sr.Violations = append(sr.Violations, run.ViolationRec{Property: "C05", Oracle: "crash-image", Class: cls, Disc: disc,
						Detail: det + "\n  program: " + p.Summary(16), Case: idx, Replay: rb})
				}
			}
			if len(sr.Samples) < 2 {
				var ops []string
				for i, op := range trace {
					if i > 40 {
						ops = append(ops, "...")
						break
					}
					ops = append(ops, fmt.Sprintf("%s %s %d+%d %s", op.Kind, op.Name, op.Off, op.Len, op.Note))
				}
				sr.Samples = append(sr.Samples, map[string]interface{}{"trace": idx, "program": p.Summary(10), "ops": ops, "images": len(images), "killOnly": killOnly})
			}
		}
		return sr
	}
	ck.Replay = func(body json.RawMessage, scratch string) ([]run.ViolationRec, string) {
		var b c05Replay
		if err := json.Unmarshal(body, &b); err != nil || b.Program == nil {
			return nil, "bad replay body"
		}
		trace, marks, world, uni, e := recordTrace(b.Program, scratch, 0)
		if e != "" {
			return nil, e
		}
		if b.Image.Point >= len(trace) {
			return nil, "trace shorter than in the recorded run (non-deterministic write order)"
		}
		sr := run.NewShardResult()
		files := eng.BuildImage(trace, b.Image, b.Program.Cfg.NoSync)
		if kd := os.Getenv("VERIF_KEEP_IMAGE"); kd != "" {
			os.MkdirAll(kd, 0o755)
			for n, c := range files {
				os.WriteFile(filepath.Join(kd, n), c, 0o600)
			}
			for i, op := range trace {
				fmt.Printf("  op %d: %s %s off=%d len=%d n=%d %s %s\n", i, op.Kind, op.Name, op.Off, op.Len, op.N, op.Note, op.Phase)
			}
			for _, m := range marks {
				fmt.Printf("  mark at %d %s %s\n", m.At, m.Kind, m.Hash[:8])
			}
		}
		cls, disc, det := checkImage(b.Program.Cfg, world, uni, marks, trace, b.Image, files, filepath.Join(scratch, "img"), sr)
		if cls == "inconclusive" || cls == "harness" {
			return nil, det
		}
		if cls != "" {
			return []run.ViolationRec{{Property: "C05", Oracle: "crash-image", Class: cls, Disc: disc, Detail: det}}, ""
		}
		return nil, ""
	}
	run.Register(ck)
}
