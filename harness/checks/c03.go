package checks

import (
	"encoding/json"
	"fmt"
	"time"

	"mossverif/eng"
	"mossverif/run"
)

func genStress(r *eng.Rng, th bool, race bool) StressParams {
	backing := pickBacking(r, "none", "store", "store", "store", "custom")
	cfg := eng.GenConfig(r, backing, false)
	cfg.MaxPreMergerBatches = r.Pick(1, 2, 3, 3)
	cfg.Alloc = false
	if backing == "store" {
		cfg.Concern = r.Pick(0, 1, 1, 1, 2)
		cfg.LevelMaxSegments = r.Pick(1, 2, 3)
		cfg.LevelMultiplier = r.Pick(2, 3)
		cfg.NoSync = true // tmpfs anyway; keeps the persister fast so that more hand-overs happen
	}
	if r.Chance(1, 4) {
		cfg.IdleMS = int64(r.Pick(1, 2, 5))
	}
	p := StressParams{Seed: r.U64(), Cfg: cfg, Writers: 2 + r.Intn(5), Batches: 40 + r.Intn(110), Keys: 3 + r.Intn(2),
		FullRd: 1 + r.Intn(2), HammerRd: 1 + r.Intn(3), GetRd: 1, Delays: true, Porc: r.Chance(1, 4)}
	if backing != "custom" {
		p.Children = r.Intn(3)
	}
	if r.Chance(1, 3) {
		// big, unsorted batches with deferred sorting: readers, the merger and
		// blocked writers compete for the sorter ticket of fresh segments
		p.Cfg.DeferredSort = true
		p.Filler = r.Pick(200, 1000, 4000)
		p.Batches = 15 + r.Intn(25)
		p.Writers = 2 + r.Intn(2)
	}
	if th {
		p.Batches = 100 + r.Intn(300)
		if p.Filler > 0 {
			// hundreds of batches of thousands of unsorted keys do not finish
			// within the watchdog; the point of these runs is the sorter
			// contention on fresh segments, not volume
			p.Batches = 30 + r.Intn(50)
		}
	}
	if p.Children > 0 && r.Chance(1, 2) {
		p.ChildOnly = true
	}
	if r.Chance(1, 3) {
		// Merge operands folded by readers, the merger and the compactor
		// while everything runs
		p.Merge = true
		p.Cfg.MergeOp = true
	}
	if race {
		p.Batches = 30 + r.Intn(60)
		p.Extras = true
		p.Porc = false
		if p.Filler > 0 {
			p.Filler = r.Pick(50, 200)
			p.Batches = 10 + r.Intn(15)
		}
	}
	return p
}

func stressUnits(p StressParams, res *StressResult, add func(string)) {
	b := p.Cfg.Backing
	for k := range res.Overlap {
		add(b + "|" + k)
	}
	if res.WritersBlocked > 0 {
		add(b + "|writers-blocked")
	}
	if res.Compactions > 0 {
		add(b + "|compactions")
	}
	if p.Children > 0 {
		add(b + "|children")
	}
	if p.ChildOnly {
		add(b + "|child-only-batches")
	}
	if p.Merge {
		add(b + "|merge-operands")
	}
	if p.Cfg.DeferredSort {
		add(b + "|defsort")
	}
	if p.Cfg.CachePersisted {
		add(b + "|cache")
	}
}

func init() {
	ck := &run.Check{
		Prop:  "C03",
		Level: "exploration",
		Rule: "free-running concurrent runs: 2-6 writers with disjoint key prefixes execute 40-150 (thorough 100-400) self-identifying batches (a marker = batch number plus a pseudo-random subset of payload keys set/deleted, in the top-level collection and in 0-2 child collections, all in one batch; in half of the runs with child collections a third of each writer's batches hold no top-level operation at all, and the prefix a snapshot shows for a writer is the largest marker over the top level and the children) while 1-2 full readers (every key by Get and by iteration, child snapshots), 1-3 hammer readers (marker + one payload + one child key per snapshot) and a direct Collection.Get reader run; MaxPreMergerBatches in {1,2,3} so writers block; merger, persister and compactor run freely with seeded delays injected at the hook points between critical sections. Online interval oracle per snapshot and writer: the projection equals the state after exactly the marker's number of that writer's batches (else torn batch); marker >= batches returned (or observed by any earlier-finished snapshot) before the call started; marker <= batches invoked when the call returned; never decreasing per reader. One run in four is re-checked offline with porcupine (register per writer); disagreement = harness error class. distinct_nontrivial = distinct (backing | API call overlapping a background phase | blocked writers / compactions / children / options) units observed.",
		MinUnits:    10,
		Assumptions: []string{"cross-writer atomicity is not demanded (the property is per writer)", "wall-clock is used only as a progress watchdog (no writer completed a batch for 60 s); a run still pending then is a violation only if every moss goroutine is blocked (quiescent deadlock), otherwise inconclusive"},
	}
	ck.Run = func(c *run.Ctx) *run.ShardResult { return stressShard(c, "C03", false) }
	ck.Replay = func(body json.RawMessage, scratch string) ([]run.ViolationRec, string) {
		var p StressParams
		if err := json.Unmarshal(body, &p); err != nil {
			return nil, "bad replay body"
		}
		// schedules are not reproducible: repeat the run a few times
		for i := 0; i < 10; i++ {
			res := runStress(p, scratch, i)
			if res.Violation != "" {
				return []run.ViolationRec{{Property: "C03", Oracle: "interval", Class: res.Class, Detail: res.Detail}}, ""
			}
		}
		return nil, ""
	}
	run.Register(ck)
}

func stressShard(c *run.Ctx, prop string, race bool) *run.ShardResult {
	sr := run.NewShardResult()
	n := 64
	if c.Thorough() {
		n = 800
	}
	if race {
		n = 48
		if c.Thorough() {
			n = 480
		}
	}
	sigs := map[string]bool{}
	for idx := 0; idx < n; idx++ {
		if !c.Mine(idx) {
			continue
		}
		if sr.Bail() {
			break
		}
		rg := eng.NewRng(c.CaseSeed(idx))
		p := genStress(rg, c.Thorough(), race)
		c.Progress(idx, p)
		res := runStress(p, c.Scratch, idx)
		sr.Evaluations++
		sr.Configs[p.Cfg.Class()]++
		if res.Inconc != "" {
			sr.Inconclusive = append(sr.Inconclusive, fmt.Sprintf("run %d: %s", idx, res.Inconc))
			continue
		}
		sr.Counters["snapshots"] += res.Snapshots
		sr.Counters["snapshots_overlapping_executebatch"] += res.SnapsOverlap
		sr.Counters["gets"] += res.Gets
		sr.Counters["store.previous_walk_steps"] += res.PrevWalks
		sr.Counters["api_calls"] += res.Calls
		sr.Counters["distinct_prefix_vectors"] += int64(len(res.PrefixVectors))
		sr.Counters["writers_blocked"] += int64(res.WritersBlocked)
		sr.Counters["merger_loops"] += int64(res.MergerLoops)
		sr.Counters["persists"] += int64(res.Persists)
		sr.Counters["compactions"] += int64(res.Compactions)
		sr.Counters["porcupine_ops_checked"] += int64(res.PorcChecked)
		sr.Counters["porcupine_unknown"] += int64(res.PorcUnknown)
		if int(res.MaxTop) >= p.Cfg.MaxPre() {
			sr.Counters["runs_reaching_max_top_height"]++
		}
		if !sigs[res.TraceSig] {
			sigs[res.TraceSig] = true
			sr.Counters["distinct_hook_orderings"]++
		}
		stressUnits(p, res, func(u string) { sr.Units[u]++ })
		if res.Violation != "" {
			rb, _ := json.Marshal(p)
			oracle := "interval"
			if res.Class == "hang" {
				oracle = "quiescence"
			}
			sr.Violations = append(sr.Violations, run.ViolationRec{Property: prop, Oracle: oracle, Class: res.Class,
				Detail: fmt.Sprintf("%s\n  run: writers=%d batches=%d children=%d readers=%d+%d+%d cfg=%s", res.Detail, p.Writers, p.Batches, p.Children, p.FullRd, p.HammerRd, p.GetRd, p.Cfg.Class()), Case: idx, Replay: rb})
		}
		if len(sr.Samples) < 2 {
			sr.Samples = append(sr.Samples, map[string]interface{}{"run": idx, "params": p, "snapshots": res.Snapshots,
				"snapshots_overlapping_writes": res.SnapsOverlap, "distinct_prefix_vectors": len(res.PrefixVectors), "overlaps": res.Overlap})
		}
	}
	return sr
}

func init() {
	ck := &run.Check{
		Prop:      "C17",
		Level:     "exploration",
		NeedsRace: true,
		Rule: "the C03 concurrent driver (writers on disjoint keys incl. child collections, full / hammer / direct-Get readers with their oracles active) plus a goroutine issuing Stats, Histograms, Options, asynchronous NotifyMerger (plain and mergeAll), Store.Stats, Store.Histograms, Store.Snapshot + Get + iterator, Store.SnapshotPrevious walks up to three footers back (with child snapshots), runs inside a binary built with -race (which also enables checkptr for the unsafe slice conversions on mmapped segments) over the option matrix DeferredSort x CachePersisted x backing {none, mossStore with small compaction levels, custom lower level} x child collections, with seeded delays at the hook points; Close only after the user goroutines have joined. GORACE=halt_on_error=0 log_path=...; every 'WARNING: DATA RACE' block in the log with a moss frame is a violation, de-duplicated by the innermost moss functions of the two accesses; blocks without moss frames are counted as harness races. distinct_nontrivial = distinct (backing | API call overlapping a background phase | options) units observed.",
		MinUnits:    10,
		Assumptions: []string{"the race detector only sees races the run exercises", "concurrent Close is not part of this workload (C16)"},
		WorkerTimeout: func(tier string) time.Duration {
			if tier == "thorough" {
				return 120 * time.Minute
			}
			return 40 * time.Minute
		},
	}
	ck.Run = func(c *run.Ctx) *run.ShardResult { return stressShard(c, "C17", true) }
	ck.Replay = func(body json.RawMessage, scratch string) ([]run.ViolationRec, string) {
		return nil, "race reports are replayed by re-running the check (./run.sh C17 quick) - schedules are not reproducible"
	}
	run.Register(ck)
}
