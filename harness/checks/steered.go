// Package checks registers one check per property.
package checks

import (
	"encoding/json"
	"fmt"
	"os"
	"path/filepath"

	"mossverif/eng"
	"mossverif/run"
)

// steeredProfile describes a property served by the steered engine.
type steeredProfile struct {
	prop     string
	rule     string
	quick    int
	thorough int
	oracles  eng.Oracles
	// gen returns the program of case idx.
	gen func(r *eng.Rng, idx int, thorough bool) *eng.Program
	// units extracts the property-specific non-trivial units of one result.
	units       func(p *eng.Program, res *eng.Result, add func(string))
	assumptions []string
	minUnits    int
	// post runs after each program with access to the runner (optional).
	lowerPlan func(r *eng.Rng, p *eng.Program) map[int]bool
}

func runProgram(p *eng.Program, o eng.Oracles, scratch string, idx int, failPlan map[int]bool) (*eng.Result, *eng.Runner) {
	dir := filepath.Join(scratch, fmt.Sprintf("case%06d", idx))
	os.MkdirAll(dir, 0o755)
	defer os.RemoveAll(dir)
	r := eng.NewRunner(p, o, dir)
	if p.Cfg.Backing == "custom" {
		r.E.Lower = eng.NewLower(nil)
		for k, v := range failPlan {
			r.E.Lower.FailPlan[k] = v
		}
	}
	res := r.Run()
	return res, r
}

type steeredReplay struct {
	Program  *eng.Program
	FailPlan map[int]bool `json:",omitempty"`
}

func registerSteered(sp steeredProfile) {
	ck := &run.Check{
		Prop:        sp.prop,
		Level:       "exploration",
		Rule:        sp.rule,
		Assumptions: sp.assumptions,
		MinUnits:    sp.minUnits,
	}
	ck.Run = func(c *run.Ctx) *run.ShardResult {
		sr := run.NewShardResult()
		n := sp.quick
		if c.Thorough() {
			n = sp.thorough
		}
		for idx := 0; idx < n; idx++ {
			if !c.Mine(idx) {
				continue
			}
			rg := eng.NewRng(c.CaseSeed(idx))
			p := sp.gen(rg, idx, c.Thorough())
			p.Prop = sp.prop
			var fp map[int]bool
			if sp.lowerPlan != nil {
				fp = sp.lowerPlan(rg, p)
			}
			body := steeredReplay{Program: p, FailPlan: fp}
			c.Progress(idx, body)
			res, _ := runProgram(p, sp.oracles, c.Scratch, idx, fp)
			sr.Evaluations++
			sr.Configs[p.Cfg.Class()]++
			if res.Inconclusive != "" {
				sr.Inconclusive = append(sr.Inconclusive, fmt.Sprintf("case %d: %s", idx, res.Inconclusive))
				continue
			}
			for k, v := range res.Counters {
				sr.Counters[k] += v
			}
			for _, v := range res.Violations {
				rb, _ := json.Marshal(body)
				sr.Violations = append(sr.Violations, run.ViolationRec{
					Property: sp.prop, Oracle: v.Oracle, Class: v.Class, Disc: v.Disc,
					Detail: v.Detail + "\n  program: " + p.Summary(60), Step: v.Step, Case: idx, Replay: rb})
			}
			add := func(u string) { sr.Units[u]++ }
			if sp.units != nil {
				sp.units(p, res, add)
			} else {
				for k := range res.Shapes {
					add(k)
				}
				for k := range res.Nontrivial {
					add(k)
				}
			}
			if len(sr.Samples) < 2 {
				sr.Samples = append(sr.Samples, map[string]interface{}{
					"case": idx, "program": p.Summary(25), "steps": res.Steps,
					"counters": res.Counters, "violations": len(res.Violations)})
			}
		}
		return sr
	}
	ck.Replay = func(body json.RawMessage, scratch string) ([]run.ViolationRec, string) {
		var b steeredReplay
		if err := json.Unmarshal(body, &b); err != nil || b.Program == nil {
			return nil, "bad replay body"
		}
		b.Program.Prop = sp.prop
		res, _ := runProgram(b.Program, sp.oracles, scratch, 0, b.FailPlan)
		var out []run.ViolationRec
		for _, v := range res.Violations {
			out = append(out, run.ViolationRec{Property: sp.prop, Oracle: v.Oracle, Class: v.Class, Disc: v.Disc, Detail: v.Detail, Step: v.Step})
		}
		return out, res.Inconclusive
	}
	run.Register(ck)
}

func pickBacking(r *eng.Rng, w ...string) string { return w[r.Intn(len(w))] }

func init() {
	// ------------------------------------------------------------ C01
	registerSteered(steeredProfile{
		prop: "C01", quick: 480, thorough: 9600,
		rule: "steered programs (seeded): 3-30 batches of Set/Del over a dense hostile key universe interleaved with directed merger cycles (plain/mergeAll/idle), persister rounds, parks at intermediate hook points and reopens; after EVERY step a fresh Snapshot is compared with the reference map by Get (nil-ness exact) and by full iteration. distinct_nontrivial = distinct (configuration class | section shape top/mid/base/clean/lower-level | park point) triples at which a comparison ran.",
		oracles: eng.Oracles{Content: true},
		gen: func(r *eng.Rng, idx int, th bool) *eng.Program {
			cfg := eng.GenConfig(r, pickBacking(r, "none", "store", "store", "store", "custom"), false)
			gp := eng.GenParams{MinBatches: 3, MaxBatches: 18, NKeys: 6 + r.Intn(8), Park: true, Reopen: true, Idle: true}
			if th {
				gp.MaxBatches = 30
			}
			if idx%8 == 7 {
				gp.WideKeys = 200 + r.Intn(800)
				gp.MaxBatches = 8
			}
			return eng.GenProgram(r, "C01", cfg, gp)
		},
		assumptions: []string{"keys unique per batch (documented API requirement)", "Snapshot taken with no ExecuteBatch in flight (director is single-threaded)"},
		minUnits:    20,
	})
}
