// Package checks registers one check per property.
package checks

import (
	"encoding/json"
	"fmt"
	"os"
	"path/filepath"
	"sync"

	"mossverif/eng"
	"mossverif/run"
)

// steeredProfile describes a property served by the steered engine.
type steeredProfile struct {
	prop     string
	rule     string
	quick    int
	thorough int
	oracles  eng.Oracles
	// gen returns the program of case idx.
	gen func(r *eng.Rng, idx int, thorough bool) *eng.Program
	// units extracts the property-specific non-trivial units of one result.
	units       func(p *eng.Program, res *eng.Result, add func(string))
	assumptions []string
	minUnits    int
	// post runs after each program with access to the runner (optional).
	lowerPlan func(r *eng.Rng, p *eng.Program) map[int]bool
}

var findingsOnce sync.Once
var findings []run.Finding

func knownFindings() []run.Finding {
	findingsOnce.Do(func() {
		d := os.Getenv("VERIF_DIR")
		if d == "" {
			d = "/verif"
		}
		findings, _ = run.LoadFindings(filepath.Join(d, "known_findings.json"))
	})
	return findings
}

func runProgram(p *eng.Program, o eng.Oracles, scratch string, idx int, failPlan map[int]bool) (*eng.Result, *eng.Runner) {
	dir := filepath.Join(scratch, fmt.Sprintf("case%06d", idx))
	os.MkdirAll(dir, 0o755)
	defer os.RemoveAll(dir)
	r := eng.NewRunner(p, o, dir)
	r.Tolerate = func(v eng.Violation) bool {
		return run.Match(knownFindings(), run.ViolationRec{Property: v.Property, Oracle: v.Oracle, Class: v.Class, Disc: v.Disc}) != nil
	}
	if p.Cfg.Backing == "custom" {
		r.E.Lower = eng.NewLower(nil)
		for k, v := range failPlan {
			r.E.Lower.FailPlan[k] = v
		}
	}
	res := r.Run()
	return res, r
}

type steeredReplay struct {
	Program  *eng.Program
	FailPlan map[int]bool `json:",omitempty"`
}

func registerSteered(sp steeredProfile) {
	SteeredOracles[sp.prop] = sp.oracles
	ck := &run.Check{
		Prop:        sp.prop,
		Level:       "exploration",
		Rule:        sp.rule,
		Assumptions: sp.assumptions,
		MinUnits:    sp.minUnits,
	}
	ck.Run = func(c *run.Ctx) *run.ShardResult {
		sr := run.NewShardResult()
		n := sp.quick
		if c.Thorough() {
			n = sp.thorough
		}
		for idx := 0; idx < n; idx++ {
			if !c.Mine(idx) {
				continue
			}
			if sr.Bail() {
				break
			}
			rg := eng.NewRng(c.CaseSeed(idx))
			p := sp.gen(rg, idx, c.Thorough())
			p.Prop = sp.prop
			var fp map[int]bool
			if sp.lowerPlan != nil {
				fp = sp.lowerPlan(rg, p)
			}
			body := steeredReplay{Program: p, FailPlan: fp}
			c.Progress(idx, body)
			res, _ := runProgram(p, sp.oracles, c.Scratch, idx, fp)
			sr.Evaluations++
			sr.Configs[p.Cfg.Class()]++
			if res.Inconclusive != "" {
				sr.Inconclusive = append(sr.Inconclusive, fmt.Sprintf("case %d: %s", idx, res.Inconclusive))
				continue
			}
			for k, v := range res.Counters {
				sr.Counters[k] += v
			}
			for _, v := range append(append([]eng.Violation{}, res.Tolerated...), res.Violations...) {
				rb, _ := json.Marshal(body)
				sr.Violations = append(sr.Violations, run.ViolationRec{
					Property: sp.prop, Oracle: v.Oracle, Class: v.Class, Disc: v.Disc,
					Detail: v.Detail + "\n  program: " + p.Summary(60), Step: v.Step, Case: idx, Replay: rb})
			}
			add := func(u string) { sr.Units[u]++ }
			if sp.units != nil {
				sp.units(p, res, add)
			} else {
				for k := range res.Shapes {
					add(k)
				}
				for k := range res.Nontrivial {
					add(k)
				}
			}
			if len(sr.Samples) < 2 {
				sr.Samples = append(sr.Samples, map[string]interface{}{
					"case": idx, "program": p.Summary(25), "steps": res.Steps,
					"counters": res.Counters, "violations": len(res.Violations)})
			}
		}
		return sr
	}
	ck.Replay = func(body json.RawMessage, scratch string) ([]run.ViolationRec, string) {
		var b steeredReplay
		if err := json.Unmarshal(body, &b); err != nil || b.Program == nil {
			return nil, "bad replay body"
		}
		b.Program.Prop = sp.prop
		res, _ := runProgram(b.Program, sp.oracles, scratch, 0, b.FailPlan)
		var out []run.ViolationRec
		for _, v := range res.Violations {
			out = append(out, run.ViolationRec{Property: sp.prop, Oracle: v.Oracle, Class: v.Class, Disc: v.Disc, Detail: v.Detail, Step: v.Step})
		}
		return out, res.Inconclusive
	}
	run.Register(ck)
}

func pickBacking(r *eng.Rng, w ...string) string { return w[r.Intn(len(w))] }

func init() { run.ReclaimHook = eng.ReclaimLeakedMaps }

func init() {
	// ------------------------------------------------------------ C01
	registerSteered(steeredProfile{
		prop: "C01", quick: 960, thorough: 14400,
		rule: "steered programs (seeded): 3-30 batches of Set/Del over a dense hostile key universe interleaved with directed merger cycles (plain/mergeAll/idle), persister rounds, parks at intermediate hook points and reopens; after EVERY step a fresh Snapshot is compared with the reference map by Get (nil-ness exact) and by full iteration. distinct_nontrivial = distinct (configuration class | section shape top/mid/base/clean/lower-level | park point) triples at which a comparison ran.",
		oracles: eng.Oracles{Content: true},
		gen: func(r *eng.Rng, idx int, th bool) *eng.Program {
			cfg := eng.GenConfig(r, pickBacking(r, "none", "store", "store", "store", "custom"), false)
			gp := eng.GenParams{MinBatches: 3, MaxBatches: 18, NKeys: 6 + r.Intn(8), Park: true, Reopen: true, Idle: true, QuietPct: 40, BytelessPct: 6}
			if th {
				gp.MaxBatches = 30
			}
			if idx%8 == 7 {
				gp.WideKeys = 200 + r.Intn(800)
				gp.MaxBatches = 8
				gp.SkewedWide = true
				if cfg.Backing == "store" {
					cfg.IndexMaxBytes = r.Pick(300, 1400, 5000)
					cfg.IndexMinKeyBytes = 1
				}
			}
			if idx%8 == 3 {
				// big first batch followed by small ones: MinMergePercentage
				// leaves the lowest segment unmerged
				gp.FirstWide = 300 + r.Intn(700)
				gp.MaxBatches = 8
				cfg.MaxPreMergerBatches = r.Pick(4, 10)
				// ... and with deferred sorting that segment reaches the
				// persister unsorted unless some reader got to it first:
				// mostly deferred sort, mostly no monitor reads in between
				cfg.DeferredSort = r.Chance(3, 4)
				gp.QuietPct = 80
				if r.Chance(1, 2) {
					gp.FirstBurst = 2 + r.Intn(2)
				}
			}
			if idx%8 == 5 {
				eng.PartialCompactionProfile(r, &cfg, &gp)
			}
			return eng.GenProgram(r, "C01", cfg, gp)
		},
		assumptions: []string{"keys unique per batch (documented API requirement)", "Snapshot taken with no ExecuteBatch in flight (director is single-threaded)"},
		minUnits:    20,
	})
	// ------------------------------------------------------------ C02
	registerSteered(steeredProfile{
		prop: "C02", quick: 800, thorough: 12000,
		rule: "steered programs that open collection snapshots, store snapshots, child snapshots and partially advanced iterators (up to 6 at once) at arbitrary points, then keep running batches, merger cycles, persister rounds, partial and full compactions, Collection.Close and Store.Close; after EVERY later step every open handle is re-read in full (iteration + Get of each universe key, memory faults trapped) against the model copy taken when it was opened; iterators are continued to their end and re-seeked at program end. distinct_nontrivial = distinct (handle kind | events outlived: compaction/unlink/collection close/store close | configuration class) triples for which a re-read happened. The store-first close order is exercised with the persister parked at any store.* point (a round in flight under the closed store).",
		oracles: eng.Oracles{Frozen: true, Content: true},
		gen: func(r *eng.Rng, idx int, th bool) *eng.Program {
			cfg := eng.GenConfig(r, pickBacking(r, "none", "store", "store", "store", "store", "custom"), false)
			gp := eng.GenParams{MinBatches: 4, MaxBatches: 14, NKeys: 6 + r.Intn(8), Park: true, Handles: true, StoreHandles: true,
				Children: cfg.Backing != "custom" && r.Chance(1, 3), TailClose: r.Chance(2, 3), Reopen: r.Chance(1, 4), Idle: true}
			return eng.GenProgram(r, "C02", cfg, gp)
		},
		units: func(p *eng.Program, res *eng.Result, add func(string)) {
			for k := range res.Counters {
				if len(k) > 15 && k[:15] == "handles.reread." {
					add(k[15:] + "|" + p.Cfg.Class())
				}
			}
		},
		minUnits: 20,
	})

	// ------------------------------------------------------------ C04
	registerSteered(steeredProfile{
		prop: "C04", quick: 640, thorough: 9600,
		rule: "steered store-backed programs with child collections, empty values and deletions; close+reopen at chosen points: caught-up (3 directed merger+persister iterations after the last batch, then Close), early (Close right where the program is, including with merger/persister parked), mid (Close called while the persister is parked inside Store.persist/compact at a store.* hook; gates open only after Close has signalled stop), abort (Store.CloseEx(Abort) with the round parked the same way, then Collection.Close; ErrAborted / ErrClosed reports are then provoked); the reopened tree's canonical hash is looked up in the table of prefix states: caught-up => exactly all batches, otherwise some prefix >= what the store had exposed. distinct_nontrivial = distinct (reopen kind, batches lost) pairs plus (config class|shape|park) triples.",
		oracles: eng.Oracles{Content: true, Reopen: true, Store: true},
		gen: func(r *eng.Rng, idx int, th bool) *eng.Program {
			cfg := eng.GenConfig(r, "store", false)
			gp := eng.GenParams{MinBatches: 4, MaxBatches: 16, NKeys: 6 + r.Intn(8), Park: true, Reopen: true, ReopenMid: true,
				Children: r.Chance(1, 2), Nested: r.Chance(1, 3), ChildOnlyPct: 10, FinalReopen: true, Idle: true, QuietPct: 30, BytelessPct: 6}
			if idx%6 == 5 {
				gp.WideKeys = 150 + r.Intn(500)
				gp.SkewedWide = true
				gp.MaxBatches = 8
				cfg.IndexMaxBytes = r.Pick(300, 1400, 5000)
				cfg.IndexMinKeyBytes = 1
			}
			if idx%4 == 2 {
				eng.PartialCompactionProfile(r, &cfg, &gp)
			}
			p := eng.GenProgram(r, "C04", cfg, gp)
			// One case in five reopens immediately after Close, racing the
			// closed instance's asynchronous file removals.
			p.RaceReopen = idx%5 == 4
			return p
		},
		minUnits: 20,
	})

	// ------------------------------------------------------------ C07
	registerSteered(steeredProfile{
		prop: "C07", quick: 640, thorough: 9600,
		rule: "steered store-backed programs over all compaction concerns (disable / allow with LevelMaxSegments 1-4, multiplier 2-9, percentage 0.01-0.99 / force) and idle cycles, with overwrites, deletions and child collections; after every completed persistence round the store's own snapshot must equal the reference content of a non-decreasing prefix, the collection must equal the full reference content; after every round that advanced total_compactions (full) the store must show no deletion marker, no repeated key, nothing at segment level >= 1 and num_segments <= 1, recursively in children; at the end, after quiescence, the directory must hold exactly one data file. distinct_nontrivial = distinct (segments before, round kind append/partial/full/noop, segments after) triples = splice points exercised, plus shapes.",
		oracles: eng.Oracles{Content: true, Store: true, Dir: true},
		gen: func(r *eng.Rng, idx int, th bool) *eng.Program {
			cfg := eng.GenConfig(r, "store", false)
			cfg.KeepFiles = false
			gp := eng.GenParams{MinBatches: 5, MaxBatches: 20, NKeys: 6 + r.Intn(8), Park: r.Chance(1, 3),
				Children: r.Chance(1, 2), Nested: r.Chance(1, 4), Idle: true, Reopen: r.Chance(1, 4), QuietPct: 25}
			if idx%6 == 5 {
				gp.WideKeys = 100 + r.Intn(400)
				gp.MaxBatches = 10
			}
			if idx%3 == 1 {
				eng.PartialCompactionProfile(r, &cfg, &gp)
			}
			return eng.GenProgram(r, "C07", cfg, gp)
		},
		minUnits: 20,
	})

	// ------------------------------------------------------------ C08
	registerSteered(steeredProfile{
		prop: "C08", quick: 960, thorough: 19200,
		rule: "steered programs with Set/Del/Merge under an order-sensitive, nil-revealing operator (fold = (existing==nil?\"∅\":existing)+\"|\"+operand; PartialMerge refuses), operands spread over batches, sections, persisted segments, partial/full compactions, a custom lower level, child collections and reopens; after every step Get and iterator values are compared with the model's left fold. distinct_nontrivial = distinct (config class|shape|park) triples at which merged keys were compared. Operands include one that folds to the empty (present) value; a quarter of the programs contain phases in which the operator refuses a poisoned operand (FullMerge returns false) over 1-3 merger cycles, sometimes with a persister round parked in mid-flight, and must fold it exactly once after relenting; a third of the programs with child collections nest them two deep, with a pattern that has a grandchild operand resolved against the stack handed to the persister.",
		oracles: eng.Oracles{Content: true, Reopen: true},
		gen: func(r *eng.Rng, idx int, th bool) *eng.Program {
			cfg := eng.GenConfig(r, pickBacking(r, "none", "store", "store", "store", "custom"), true)
			gp := eng.GenParams{MinBatches: 3, MaxBatches: 16, NKeys: 4 + r.Intn(6), Park: true, Reopen: true, Merge: true,
				Children: cfg.Backing != "custom" && r.Chance(1, 2), Idle: true, QuietPct: 30, CrossBias: true, BytelessPct: 4}
			gp.Nested = gp.Children && idx%3 == 0
			if idx%4 == 3 {
				gp.RefusePct = 20 // the operator refuses for a while; the operands must still fold once, in order
			}
			if idx%5 == 2 {
				eng.PartialCompactionProfile(r, &cfg, &gp)
			}
			return eng.GenProgram(r, "C08", cfg, gp)
		},
		minUnits: 20,
	})

	// ------------------------------------------------------------ C10
	registerSteered(steeredProfile{
		prop: "C10", quick: 960, thorough: 14400,
		rule: "steered programs (Set/Del/Merge, empty key, empty values) over all backings; after every step, for every top-level universe key, Collection.Get, Collection.Get(NoCopyValue), Snapshot.Get, Snapshot.Get(NoCopyValue) and the iterator entry of a fresh snapshot must agree (nil-ness and bytes); values from copying Gets are re-checked after snapshot, collection and store are closed. distinct_nontrivial = distinct (config class|shape|park) triples at which the comparison ran.",
		oracles: eng.Oracles{Paths: true},
		gen: func(r *eng.Rng, idx int, th bool) *eng.Program {
			merge := r.Chance(1, 2)
			cfg := eng.GenConfig(r, pickBacking(r, "none", "store", "store", "custom"), merge)
			gp := eng.GenParams{MinBatches: 3, MaxBatches: 16, NKeys: 5 + r.Intn(8), Park: true, Reopen: r.Chance(1, 3), Merge: merge, Idle: true, QuietPct: 25, BytelessPct: 8}
			if idx%6 == 5 && cfg.Backing == "store" {
				gp.WideKeys = 150 + r.Intn(500)
				gp.SkewedWide = true
				gp.MaxBatches = 8
				cfg.IndexMaxBytes = r.Pick(300, 1400, 5000)
				cfg.IndexMinKeyBytes = 1
			}
			return eng.GenProgram(r, "C10", cfg, gp)
		},
		minUnits: 20,
	})

	// ------------------------------------------------------------ C11
	registerSteered(steeredProfile{
		prop: "C11", quick: 800, thorough: 12000,
		rule: "steered programs over child names {A,B,C} x nested {X,Y}: creation by empty child batch, child-only batches, writes, DelChildCollection, recreation in a later batch (a third of the programs with a merge operator: recreation with Merge operands on the predecessor's keys while its data is still in the dirty sections), delete-only batches, nested children, under every placement of merger/persister/compaction/reopen and all compaction concerns; after every step the whole tree seen through ChildCollectionNames/ChildCollectionSnapshot (collection level; store level after each round; after reopen) is compared with the model tree. distinct_nontrivial = distinct (config class|shape|park) triples visited while children existed plus round kinds.",
		oracles: eng.Oracles{Content: true, Reopen: true, Store: true},
		gen: func(r *eng.Rng, idx int, th bool) *eng.Program {
			cfg := eng.GenConfig(r, pickBacking(r, "none", "store", "store", "store"), false)
			merge := r.Chance(1, 3)
			cfg.MergeOp = merge
			gp := eng.GenParams{MinBatches: 4, MaxBatches: 16, NKeys: 4 + r.Intn(5), Park: r.Chance(1, 2), Reopen: true, Merge: merge,
				Children: true, Nested: r.Chance(1, 2), ChildOnlyPct: 25, DelOnlyPct: 12, Idle: true, FinalReopen: r.Chance(1, 2), QuietPct: 25}
			if idx%4 == 1 {
				eng.PartialCompactionProfile(r, &cfg, &gp)
			}
			return eng.GenProgram(r, "C11", cfg, gp)
		},
		minUnits: 20,
	})

	// ------------------------------------------------------------ C13
	registerSteered(steeredProfile{
		prop: "C13", quick: 4800, thorough: 96000,
		rule: "steered programs (Set/Del/Merge, top-level keys) against a map-backed application lower level that applies each `higher` snapshot by the documented protocol (iterate IncludeDeletions+SkipLowerLevel, resolve Merge with higher.Get); LowerLevelUpdate failure plans (single, bursts, alternating) fail before applying; after every step the lower level must equal the reference content of a non-decreasing prefix and the collection snapshot the full reference content; after draining the lower level must equal the full reference content. distinct_nontrivial = distinct prefix gaps accepted by the lower level plus (config class|shape|park) triples. A quarter of the programs contain phases in which the merge operator refuses to merge over some merger cycles.",
		oracles: eng.Oracles{Content: true, Lower: true},
		gen: func(r *eng.Rng, idx int, th bool) *eng.Program {
			merge := r.Chance(2, 3)
			cfg := eng.GenConfig(r, "custom", merge)
			gp := eng.GenParams{MinBatches: 4, MaxBatches: 18, NKeys: 4 + r.Intn(8), Park: r.Chance(2, 3), Merge: merge, Idle: true, QuietPct: 25, CrossBias: true}
			if idx%4 == 3 {
				gp.RefusePct = 15
			}
			p := eng.GenProgram(r, "C13", cfg, gp)
			p.Steps = append(p.Steps, eng.Step{K: "drain"}, eng.Step{K: "drain"}, eng.Step{K: "lowerfinal"})
			return p
		},
		lowerPlan: func(r *eng.Rng, p *eng.Program) map[int]bool {
			fp := map[int]bool{}
			switch r.Intn(4) {
			case 0:
			case 1:
				fp[r.Intn(6)] = true
			case 2:
				s := r.Intn(5)
				for i := 0; i < 2+r.Intn(3); i++ {
					fp[s+i] = true
				}
			case 3:
				for i := 0; i < 10; i += 2 {
					fp[i] = true
				}
			}
			return fp
		},
		minUnits: 20,
	})

	// ------------------------------------------------------------ C15
	registerSteered(steeredProfile{
		prop: "C15", quick: 800, thorough: 12000,
		rule: "steered store-backed programs with handles of every kind (collection snapshots, child snapshots, iterators, store snapshots) opened and closed at arbitrary points relative to persistence, partial/full compaction, idle cycles, Collection.Close and Store.Close; every handle is re-read after every step (faults trapped); after everything is closed and the process is quiescent (no moss goroutine runnable, no pending asynchronous unlink) /proc/self/fd and /proc/self/maps must not mention the (unique) store directory and the directory must hold exactly one data file. distinct_nontrivial = distinct (handle kind | events outlived | config class) triples re-read plus release checks by child/no-child. A quarter of the programs use a merge operator that refuses to merge for some merger cycles (error paths must release what they hold); the store-first close order is exercised with the persister parked at any store.* point.",
		oracles: eng.Oracles{Frozen: true, Dir: true},
		gen: func(r *eng.Rng, idx int, th bool) *eng.Program {
			cfg := eng.GenConfig(r, "store", false)
			cfg.KeepFiles = false
			gp := eng.GenParams{MinBatches: 4, MaxBatches: 14, NKeys: 6 + r.Intn(8), Park: r.Chance(1, 3), Handles: true, StoreHandles: true,
				Children: r.Chance(1, 3), TailClose: r.Chance(1, 2), Reopen: r.Chance(1, 4), Idle: true}
			if idx%4 == 1 {
				// error paths release what they hold, too: a merge operator
				// that refuses to merge for some merger cycles
				cfg.MergeOp = true
				gp.Merge = true
				gp.RefusePct = 30
			}
			return eng.GenProgram(r, "C15", cfg, gp)
		},
		units: func(p *eng.Program, res *eng.Result, add func(string)) {
			for k := range res.Counters {
				if len(k) > 15 && k[:15] == "handles.reread." {
					add(k[15:] + "|" + p.Cfg.Class())
				}
			}
			if res.Counters["released.checks"] > 0 {
				add("released|" + p.Cfg.Class())
			}
		},
		minUnits: 20,
	})

	// ------------------------------------------------------------ C20
	registerSteered(steeredProfile{
		prop: "C20", quick: 960, thorough: 14400,
		rule: "steered programs incl. child-only and delete-only batches with mossStore and a custom lower level, CachePersisted on/off; Collection.Stats() sampled after every step; whenever CurDirtyOps=CurDirtyBytes=CurDirtySegments=0 with n>0 batches executed and none in flight, the lower level's own content (Store.Snapshot() / the application map) must equal the full reference content; conversely after 3 directed merger+persister iterations the gauges must be zero. distinct_nontrivial = distinct (config class|shape|park) triples sampled with zero gauges and n>0. A zero-gauge violation is classified by what the lower level lacks: pending data vs. pending structure-only changes (creation of an empty child, deletion of a child).",
		oracles: eng.Oracles{Gauges: true},
		gen: func(r *eng.Rng, idx int, th bool) *eng.Program {
			b := pickBacking(r, "store", "store", "custom")
			cfg := eng.GenConfig(r, b, false)
			gp := eng.GenParams{MinBatches: 4, MaxBatches: 16, NKeys: 4 + r.Intn(8), Park: r.Chance(1, 3), Idle: true,
				Children: b == "store" && r.Chance(2, 3), ChildOnlyPct: 30, DelOnlyPct: 10, BytelessPct: 8}
			p := eng.GenProgram(r, "C20", cfg, gp)
			p.Steps = append(p.Steps, eng.Step{K: "drain"}, eng.Step{K: "gaugesfinal"})
			return p
		},
		units: func(p *eng.Program, res *eng.Result, add func(string)) {
			for k := range res.Nontrivial {
				add(k)
			}
		},
		minUnits: 10,
	})
}

// ShrinkSteered delta-debugs a steered replay body: it removes steps as
// long as a violation of the same oracle and class is still reported.
func ShrinkSteered(prop string, body json.RawMessage, oracle, class string, scratch string, o eng.Oracles) json.RawMessage {
	var b steeredReplay
	if err := json.Unmarshal(body, &b); err != nil || b.Program == nil {
		return body
	}
	fails := func(steps []eng.Step) bool {
		p := *b.Program
		p.Steps = steps
		p.Prop = prop
		res, _ := runProgram(&p, o, scratch, 0, b.FailPlan)
		for _, v := range res.Violations {
			if v.Oracle == oracle && v.Class == class {
				return true
			}
		}
		return false
	}
	steps := b.Program.Steps
	for chunk := len(steps) / 2; chunk >= 1; chunk /= 2 {
		for i := 0; i+chunk <= len(steps); {
			cand := append(append([]eng.Step{}, steps[:i]...), steps[i+chunk:]...)
			if fails(cand) {
				steps = cand
			} else {
				i += chunk
			}
		}
	}
	b.Program.Steps = steps
	out, _ := json.Marshal(b)
	return out
}

// SteeredOracles returns the oracle set of a steered property.
var SteeredOracles = map[string]eng.Oracles{}
