package checks

import (
	"bytes"
	"encoding/json"
	"fmt"
	"os"
	"path/filepath"
	"sort"

	"github.com/couchbase/moss"

	"mossverif/eng"
	"mossverif/model"
	"mossverif/run"
)

// IterCall is one call of an iterator program.
type IterCall struct {
	Op  string // next | seek | cur | curex
	Key []byte `json:",omitempty"`
}

// IterProg is one iterator test case on a snapshot.
type IterProg struct {
	Level string // coll | store
	Start []byte
	End   []byte
	NilS  bool // start is nil (not empty)
	NilE  bool
	Calls []IterCall
}

type c09Replay struct {
	Program *eng.Program
	Iter    IterProg
}

// modelIter is the reference iterator.
type modelIter struct {
	keys  []string
	vals  map[string][]byte
	start []byte
	pos   int
}

func newModelIter(c *model.Coll, start, end []byte) *modelIter {
	return &modelIter{keys: c.Range(start, end), vals: c.KV, start: start}
}

func (m *modelIter) cur() (string, []byte, bool) {
	if m.pos >= len(m.keys) {
		return "", nil, false
	}
	return m.keys[m.pos], m.vals[m.keys[m.pos]], true
}

func (m *modelIter) next() bool {
	if m.pos >= len(m.keys) {
		return false
	}
	m.pos++
	return m.pos < len(m.keys)
}

func (m *modelIter) seek(x []byte) bool {
	t := x
	if m.start != nil && bytes.Compare(t, m.start) < 0 {
		t = m.start
	}
	m.pos = sort.Search(len(m.keys), func(i int) bool { return bytes.Compare([]byte(m.keys[i]), t) >= 0 })
	return m.pos < len(m.keys)
}

func boundClass(b []byte, isNil bool) string {
	if isNil {
		return "nil"
	}
	if len(b) == 0 {
		return "empty"
	}
	return "key"
}

// runIterProg executes one iterator program against a snapshot and its
// reference content; it returns a description of the first divergence.
func runIterProg(snap moss.Snapshot, ref *model.Coll, ip IterProg, units map[string]int, counters map[string]int64) (class, detail string) {
	var start, end []byte
	if !ip.NilS {
		start = append([]byte{}, ip.Start...)
	}
	if !ip.NilE {
		end = append([]byte{}, ip.End...)
	}
	var it moss.Iterator
	err := eng.Safe(func() error {
		var err error
		it, err = snap.StartIterator(start, end, moss.IteratorOptions{})
		return err
	})
	if err != nil || it == nil {
		return "start-error", fmt.Sprintf("StartIterator(%q,%q): it=%v err=%v", start, end, it, err)
	}
	defer it.Close()
	impl := fmt.Sprintf("%T", it)
	mi := newModelIter(ref, start, end)
	bc := boundClass(start, ip.NilS) + "," + boundClass(end, ip.NilE)
	if start != nil && end != nil && bytes.Compare(start, end) >= 0 {
		bc = "inverted-or-equal"
	}
	prev := "start"
	sawBackAfterSkip := false
	checkCur := func(where string) (string, string) {
		var k, v []byte
		var cerr error
		ferr := eng.Safe(func() error { k, v, cerr = it.Current(); return nil })
		if ferr != nil {
			return "fault", where + ": " + ferr.Error()
		}
		mk, mv, ok := mi.cur()
		if !ok {
			if cerr != moss.ErrIteratorDone {
				return "not-done", fmt.Sprintf("%s: Current()=(%q,%q,%v) but the reference iterator is done", where, k, v, cerr)
			}
			return "", ""
		}
		if cerr != nil {
			return "premature-done", fmt.Sprintf("%s: Current() err=%v but reference is at %q", where, cerr, mk)
		}
		if string(k) != mk {
			return "wrong-key", fmt.Sprintf("%s: Current() key=%q, reference %q", where, k, mk)
		}
		if !bytes.Equal(v, mv) {
			return "wrong-value", fmt.Sprintf("%s: key=%q value=%q, reference %q", where, k, v, mv)
		}
		return "", ""
	}
	if c, d := checkCur("after StartIterator"); c != "" {
		return c + "/" + impl, d
	}
	for i, call := range ip.Calls {
		counters["iter.calls"]++
		where := fmt.Sprintf("call %d %s(%q)", i, call.Op, call.Key)
		switch call.Op {
		case "next":
			var nerr error
			if ferr := eng.Safe(func() error { nerr = it.Next(); return nil }); ferr != nil {
				return "fault/" + impl, where + ": " + ferr.Error()
			}
			ok := mi.next()
			if ok && nerr != nil {
				return "next-premature-done/" + impl, fmt.Sprintf("%s returned %v but the reference has more keys", where, nerr)
			}
			if !ok && nerr != moss.ErrIteratorDone {
				return "next-not-done/" + impl, fmt.Sprintf("%s returned %v but the reference is exhausted", where, nerr)
			}
		case "seek":
			_, _, wasValid := mi.cur()
			back := false
			if ck, _, ok := mi.cur(); ok && bytes.Compare(call.Key, []byte(ck)) < 0 {
				back = true
			}
			if !wasValid {
				back = true
			}
			var serr error
			if ferr := eng.Safe(func() error { serr = it.SeekTo(call.Key); return nil }); ferr != nil {
				return "fault/" + impl, where + ": " + ferr.Error()
			}
			ok := mi.seek(call.Key)
			kind := "seek-fwd"
			if back {
				kind = "seek-back"
				sawBackAfterSkip = true
			}
			call.Op = kind
			if ok && serr != nil {
				return kind + "-premature-done/" + impl, fmt.Sprintf("%s returned %v but the reference positions on %q", where, serr, mi.keys[mi.pos])
			}
			if !ok && serr != moss.ErrIteratorDone {
				return kind + "-not-done/" + impl, fmt.Sprintf("%s returned %v but the reference has no key >= max(x,start)", where, serr)
			}
		case "curex":
			var ex moss.EntryEx
			var k []byte
			var cerr error
			if ferr := eng.Safe(func() error { ex, k, _, cerr = it.CurrentEx(); return nil }); ferr != nil {
				return "fault/" + impl, where + ": " + ferr.Error()
			}
			mk, _, ok := mi.cur()
			if ok && (cerr != nil || string(k) != mk || ex.Operation == moss.OperationDel) {
				return "curex-wrong/" + impl, fmt.Sprintf("%s = (op=%x,%q,%v), reference key %q", where, ex.Operation, k, cerr, mk)
			}
			if !ok && cerr != moss.ErrIteratorDone {
				return "curex-not-done/" + impl, fmt.Sprintf("%s = (%q,%v) but reference is done", where, k, cerr)
			}
		}
		if c, d := checkCur("after " + where); c != "" {
			return c + "/" + impl + "/after-" + call.Op, d
		}
		units[impl+"|"+bc+"|"+prev+">"+call.Op]++
		prev = call.Op
	}
	_ = sawBackAfterSkip
	counters["iter.programs"]++
	return "", ""
}

func genIterProg(r *eng.Rng, ref *model.Coll, uni []string, level string) IterProg {
	pool := [][]byte{}
	for _, k := range uni {
		pool = append(pool, []byte(k))
		pool = append(pool, append([]byte(k), 0))
		if len(k) > 0 {
			pool = append(pool, []byte(k[:len(k)-1]))
			kk := []byte(k)
			kk[len(kk)-1]++
			pool = append(pool, kk)
		}
	}
	extremes := [][]byte{{}, {0xff, 0xff, 0xff}, []byte("zzzz")}
	pool = append(pool, extremes...)
	pick := func() []byte {
		if len(pool) > 100 && r.Chance(1, 6) {
			// in a wide universe the far ends would hardly ever be drawn
			return append([]byte{}, extremes[r.Intn(len(extremes))]...)
		}
		return append([]byte{}, pool[r.Intn(len(pool))]...)
	}
	ip := IterProg{Level: level}
	switch r.Intn(6) {
	case 0:
		ip.NilS = true
	case 1:
		ip.Start = []byte{}
	default:
		ip.Start = pick()
	}
	switch r.Intn(6) {
	case 0, 1:
		ip.NilE = true
	case 2:
		if !ip.NilS {
			ip.End = append([]byte{}, ip.Start...) // equal bounds
		} else {
			ip.End = []byte{}
		}
	default:
		ip.End = pick()
	}
	n := 4 + r.Intn(36)
	for i := 0; i < n; i++ {
		x := r.Intn(10)
		switch {
		case x < 4:
			ip.Calls = append(ip.Calls, IterCall{Op: "next"})
		case x < 8:
			ip.Calls = append(ip.Calls, IterCall{Op: "seek", Key: pick()})
		case x < 9:
			ip.Calls = append(ip.Calls, IterCall{Op: "curex"})
		default:
			// run to exhaustion then continue
			for j := 0; j < 3+r.Intn(20); j++ {
				ip.Calls = append(ip.Calls, IterCall{Op: "next"})
			}
		}
	}
	return ip
}

// buildShape runs a program and leaves the instance open.
func buildShape(p *eng.Program, scratch string, idx int) (*eng.Runner, *eng.Result, string) {
	dir := filepath.Join(scratch, fmt.Sprintf("case%06d", idx))
	os.MkdirAll(dir, 0o755)
	r := eng.NewRunner(p, eng.Oracles{}, dir)
	r.KeepOpen = true
	if p.Cfg.Backing == "custom" {
		r.E.Lower = eng.NewLower(nil)
	}
	res := r.Run()
	return r, res, dir
}

func closeShape(r *eng.Runner, dir string) {
	r.KeepOpen = false
	r.Cleanup()
	os.RemoveAll(dir)
}

func c09Shape(rg *eng.Rng, th bool) *eng.Program {
	cfg := eng.GenConfig(rg, pickBacking(rg, "none", "none", "store", "store", "custom"), false)
	cfg.MaxPreMergerBatches = 10
	gp := eng.GenParams{MinBatches: 1, MaxBatches: 7, NKeys: 4 + rg.Intn(12), Park: false, Idle: false}
	if rg.Chance(1, 3) {
		gp.NoPersistSteps = true
	}
	if rg.Chance(1, 5) {
		// wide shapes: hundreds of entries per segment, so that a seek has
		// to give up stepping (DefaultNaiveSeekToMaxTries) and jump
		gp.WideKeys = 110 + rg.Intn(240)
		gp.MaxBatches = 3
	}
	p := eng.GenProgram(rg, "C09", cfg, gp)
	return p
}

func init() {
	ck := &run.Check{
		Prop:  "C09",
		Level: "exploration",
		Rule: "for each case a snapshot shape is built with the steered engine (1-7 batches with deletions, merger cycles / persister rounds placed so that 1..6 segments, tombstones, lower level present/absent/exhausted occur), then 12 iterator programs run on the collection snapshot and (store-backed) 6 on the store snapshot: bounds drawn from {nil, empty, existing keys, key+\\x00, truncated key, incremented key, equal, inverted} and <= 40 calls mixing Next, forward/backward/equal SeekTo, seeks beyond both bounds and after exhaustion, CurrentEx; every return value is compared with a reference iterator (sorted live keys in [start,end), lower-bound seek). distinct_nontrivial = distinct (iterator implementation type | bound class | call bigram) triples executed.",
		MinUnits:    30,
		Assumptions: []string{"SeekTo may reposition an exhausted iterator; Next/Current after exhaustion must keep reporting ErrIteratorDone", "iterator values compared with bytes.Equal (nil == empty)"},
	}
	const perColl, perStore = 12, 6
	ck.Run = func(c *run.Ctx) *run.ShardResult {
		sr := run.NewShardResult()
		n := 3200
		if c.Thorough() {
			n = 48000
		}
		for idx := 0; idx < n; idx++ {
			if !c.Mine(idx) {
				continue
			}
			if sr.Bail() {
				break
			}
			rg := eng.NewRng(c.CaseSeed(idx))
			p := c09Shape(rg, c.Thorough())
			c.Progress(idx, c09Replay{Program: p})
			r, res, dir := buildShape(p, c.Scratch, idx)
			sr.Evaluations++
			sr.Configs[p.Cfg.Class()]++
			if res.Inconclusive != "" || len(res.Violations) > 0 || r.E.Coll == nil {
				if res.Inconclusive != "" {
					sr.Inconclusive = append(sr.Inconclusive, fmt.Sprintf("case %d: %s", idx, res.Inconclusive))
				} else {
					sr.Inconclusive = append(sr.Inconclusive, fmt.Sprintf("case %d: shape building failed: %v", idx, res.Violations))
				}
				closeShape(r, dir)
				continue
			}
			ref := r.E.World.Cur()
			uni := r.E.Uni.Keys(nil)
			type target struct {
				level string
				snap  moss.Snapshot
				ref   *model.Coll
				n     int
			}
			var targets []target
			if s, err := r.E.Coll.Snapshot(); err == nil && s != nil {
				targets = append(targets, target{"coll", s, ref, perColl})
			}
			if r.E.Store != nil {
				if s, err := r.E.Store.Snapshot(); err == nil && s != nil {
					if t, err := eng.ReadTree(s); err == nil {
						targets = append(targets, target{"store", s, t, perStore})
					} else {
						s.Close()
					}
				}
			}
			sr.Counters["shape."+r.E.Shape().String()]++
			for _, tg := range targets {
				for j := 0; j < tg.n; j++ {
					ip := genIterProg(rg, tg.ref, uni, tg.level)
					cls, det := runIterProg(tg.snap, tg.ref, ip, sr.Units, sr.Counters)
					if cls != "" {
						rb, _ := json.Marshal(c09Replay{Program: p, Iter: ip})
						sr.Violations = append(sr.Violations, run.ViolationRec{Property: "C09", Oracle: "model-iterator", Class: cls,
							Disc: tg.level, Detail: fmt.Sprintf("%s\n  bounds start=%q(nil=%v) end=%q(nil=%v) level=%s shape=%s\n  program: %s",
								det, ip.Start, ip.NilS, ip.End, ip.NilE, tg.level, r.E.Shape(), p.Summary(30)), Case: idx, Replay: rb})
						break
					}
				}
				tg.snap.Close()
			}
			if len(sr.Samples) < 2 {
				sr.Samples = append(sr.Samples, map[string]interface{}{"case": idx, "shape_program": p.Summary(12), "shape": r.E.Shape().String(),
					"iterator_program_example": genIterProg(eng.NewRng(1), ref, uni, "coll")})
			}
			closeShape(r, dir)
		}
		return sr
	}
	ck.Replay = func(body json.RawMessage, scratch string) ([]run.ViolationRec, string) {
		var b c09Replay
		if err := json.Unmarshal(body, &b); err != nil || b.Program == nil {
			return nil, "bad replay body"
		}
		r, res, dir := buildShape(b.Program, scratch, 0)
		defer closeShape(r, dir)
		if res.Inconclusive != "" || r.E.Coll == nil {
			return nil, "shape building failed: " + res.Inconclusive
		}
		var snap moss.Snapshot
		ref := r.E.World.Cur()
		if b.Iter.Level == "store" && r.E.Store != nil {
			snap, _ = r.E.Store.Snapshot()
			ref, _ = eng.ReadTree(snap)
		} else {
			snap, _ = r.E.Coll.Snapshot()
		}
		defer snap.Close()
		cls, det := runIterProg(snap, ref, b.Iter, map[string]int{}, map[string]int64{})
		if cls != "" {
			return []run.ViolationRec{{Property: "C09", Oracle: "model-iterator", Class: cls, Disc: b.Iter.Level, Detail: det}}, ""
		}
		return nil, ""
	}
	run.Register(ck)
}
