package checks

import (
	"bytes"
	"encoding/json"
	"fmt"
	"os"
	"path/filepath"

	"github.com/couchbase/moss"

	"mossverif/eng"
	"mossverif/model"
	"mossverif/run"
)

// c19Replay: either a steered twin program or a limits case.
type c19Replay struct {
	Kind    string // twin | limits
	Program *eng.Program `json:",omitempty"`
	Variant string       `json:",omitempty"`
	Limit   *c19Limit    `json:",omitempty"`
}

type c19Limit struct {
	KeyLen  int
	ValLen  int
	Op      string // set | merge | del
	Backing string
}

// magicKeyPool returns keys that all begin with the doubled footer magic, so
// that the first (page-aligned) key of every persisted segment looks like
// the start of a footer.
func magicKeyPool(r *eng.Rng) []string {
	seen := map[string]bool{}
	var keys []string
	for len(keys) < 8 {
		k := []byte("0m1o2s0m1o2s")
		v := uint32(r.Pick(4, 4, 0, 5, 0x30303030, 0xffffffff))
		l := uint32(r.Pick(0, 27, 40, 400, 4096, 1<<30))
		k = append(k, byte(v), byte(v>>8), byte(v>>16), byte(v>>24), byte(l), byte(l>>8), byte(l>>16), byte(l>>24))
		for i := r.Intn(10); i > 0; i-- {
			k = append(k, byte('a'+r.Intn(26)))
		}
		if !seen[string(k)] {
			seen[string(k)] = true
			keys = append(keys, string(k))
		}
	}
	return keys
}

func hostileKeyPool(r *eng.Rng) []string {
	seen := map[string]bool{"": true}
	keys := []string{""}
	for len(keys) < 10 {
		k := string(eng.HostileBytes(r, true))
		if seen[k] {
			continue
		}
		seen[k] = true
		keys = append(keys, k)
	}
	return keys
}

var c19Variants = []string{"plain", "alloc", "defsort", "cache", "alloc+defsort+cache"}

func applyVariant(cfg eng.Config, v string) eng.Config {
	cfg.Alloc, cfg.DeferredSort, cfg.CachePersisted = false, false, false
	switch v {
	case "alloc":
		cfg.Alloc = true
	case "defsort":
		cfg.DeferredSort = true
	case "cache":
		cfg.CachePersisted = true
	case "alloc+defsort+cache":
		cfg.Alloc, cfg.DeferredSort, cfg.CachePersisted = true, true, true
	}
	return cfg
}

// runLimit checks the documented size limits: an oversize key / value is
// rejected with ErrKeyTooLarge / ErrValueTooLarge and the other operations
// of the batch are unaffected; boundary sizes are accepted and round-trip.
func runLimit(l *c19Limit, scratch string, idx int, sr *run.ShardResult) (class, detail string) {
	dir := filepath.Join(scratch, fmt.Sprintf("limit%06d", idx))
	os.MkdirAll(dir, 0o755)
	defer os.RemoveAll(dir)
	cfg := eng.Config{Backing: l.Backing, MergeOp: true, Concern: 1, LevelMaxSegments: 2, LevelMultiplier: 2}
	e := eng.NewExec(cfg, dir, true)
	defer e.D.Detach()
	if err := e.Open(); err != nil {
		return "harness", "open: " + err.Error()
	}
	defer e.CloseAll()
	const maxKey = 1<<24 - 1
	const maxVal = 1<<28 - 1
	key := bytes.Repeat([]byte{'K'}, l.KeyLen)
	val := bytes.Repeat([]byte{'V'}, l.ValLen)
	if l.KeyLen > 0 {
		key[l.KeyLen-1] = 'k'
	}
	if l.ValLen > 0 {
		val[0] = 'v'
		val[l.ValLen-1] = 'w'
	}
	b, err := e.Coll.NewBatch(4, l.KeyLen+l.ValLen+64)
	if err != nil {
		return "harness", err.Error()
	}
	defer b.Close()
	if err := b.Set([]byte("before"), []byte("1")); err != nil {
		return "harness", err.Error()
	}
	var opErr error
	var allocNeighbour []byte
	switch l.Op {
	case "set":
		opErr = b.Set(key, val)
	case "merge":
		opErr = b.Merge(key, val)
	case "del":
		opErr = b.Del(key)
		val = nil
	case "allocset", "allocmerge", "allocdel":
		vl := l.ValLen
		if l.Op == "allocdel" {
			vl = 0
			val = nil
		}
		buf, aerr := b.Alloc(l.KeyLen + vl)
		if aerr != nil {
			return "harness", "Alloc: " + aerr.Error()
		}
		copy(buf, key)
		copy(buf[l.KeyLen:], val)
		// a neighbour carved out before the entry under test is registered
		// (and registered after it): a rejected entry must not take the
		// neighbour's bytes with it
		nb, aerr := b.Alloc(len("allocnb") + 1)
		if aerr != nil {
			return "harness", "Alloc: " + aerr.Error()
		}
		copy(nb, "allocnb3")
		allocNeighbour = nb
		switch l.Op {
		case "allocset":
			opErr = b.AllocSet(buf[:l.KeyLen], buf[l.KeyLen:])
		case "allocmerge":
			opErr = b.AllocMerge(buf[:l.KeyLen], buf[l.KeyLen:])
		case "allocdel":
			opErr = b.AllocDel(buf[:l.KeyLen])
		}
	}
	if allocNeighbour != nil {
		if err := b.AllocSet(allocNeighbour[:7], allocNeighbour[7:]); err != nil {
			return "limit-neighbour-rejected", fmt.Sprintf("AllocSet of a small neighbour entry after %s (key length %d, value length %d) returned %v", l.Op, l.KeyLen, l.ValLen, err)
		}
	}
	if err := b.Set([]byte("after"), []byte("2")); err != nil {
		return "harness", err.Error()
	}
	wantErr := error(nil)
	if l.KeyLen > maxKey {
		wantErr = moss.ErrKeyTooLarge
	} else if l.ValLen > maxVal && l.Op != "del" && l.Op != "allocdel" {
		wantErr = moss.ErrValueTooLarge
	}
	sr.Units[fmt.Sprintf("limit|%s|key%s|val%s|%s", l.Op, sizeClass(l.KeyLen, maxKey), sizeClass(l.ValLen, maxVal), l.Backing)]++
	if opErr != wantErr {
		return "limit-error-mismatch", fmt.Sprintf("%s with key length %d, value length %d returned %v, documented: %v", l.Op, l.KeyLen, l.ValLen, opErr, wantErr)
	}
	if err := e.Coll.ExecuteBatch(b, moss.WriteOptions{}); err != nil {
		return "limit-batch-failed", fmt.Sprintf("ExecuteBatch after a rejected operation failed: %v", err)
	}
	want := model.New()
	want.KV["before"] = []byte("1")
	want.KV["after"] = []byte("2")
	if allocNeighbour != nil {
		want.KV["allocnb"] = []byte("3")
	}
	if wantErr == nil {
		switch l.Op {
		case "set", "allocset":
			want.KV[string(key)] = val
		case "merge", "allocmerge":
			want.KV[string(key)] = eng.MergeFold(key, nil, val)
		}
	}
	check := func(stage string) (string, string) {
		s, err := e.Coll.Snapshot()
		if err != nil {
			return "snapshot-error", err.Error()
		}
		defer s.Close()
		var got *model.Coll
		if err := eng.Safe(func() error { var err error; got, err = eng.ReadTree(s); return err }); err != nil {
			return "read-error", stage + ": " + err.Error()
		}
		if m := eng.DiffTree(got, want, nil); m != nil {
			mm := *m
			if len(mm.Key) > 40 {
				mm.Key = mm.Key[:40] + "..."
			}
			return "limit-content/" + m.Kind, fmt.Sprintf("%s: key length %d value length %d: %s", stage, l.KeyLen, l.ValLen, mm.String())
		}
		for _, k := range []string{"before", "after", "allocnb", string(key)} {
			v, err := s.Get([]byte(k), moss.ReadOptions{})
			if err != nil {
				return "get-error", err.Error()
			}
			if !bytes.Equal(v, want.Get([]byte(k))) || (v == nil) != (want.Get([]byte(k)) == nil) {
				return "limit-content/get", fmt.Sprintf("%s: Get of key (len %d) returned %d bytes, want %d", stage, len(k), len(v), len(want.Get([]byte(k))))
			}
		}
		sr.Counters["limits.content_checks"]++
		return "", ""
	}
	if c, d := check("in memory"); c != "" {
		return c, d
	}
	if r := e.MergerCycle("mergeAll", ""); r == eng.ResWatchdog {
		return "inconclusive", "watchdog"
	}
	if c, d := check("after merge"); c != "" {
		return c, d
	}
	if l.Backing == "store" {
		if r := e.PersisterRound(""); r == eng.ResWatchdog {
			return "inconclusive", "watchdog"
		}
		if n := e.BgErrCount(); n > 0 {
			return "limit-persist-error", e.LastBgErr()
		}
		if c, d := check("after persist"); c != "" {
			return c, d
		}
		e.CloseAll()
		if err := e.Open(); err != nil {
			return "limit-reopen-failed", err.Error()
		}
		if c, d := check("after reopen"); c != "" {
			return c, d
		}
	}
	return "", ""
}

func sizeClass(n, max int) string {
	switch {
	case n == 0:
		return "0"
	case n == 1:
		return "1"
	case n == max:
		return "=max"
	case n == max+1:
		return "=max+1"
	case n > max+1:
		return ">max"
	}
	return "mid"
}

func init() {
	ck := &run.Check{
		Prop:  "C19",
		Level: "exploration",
		Rule: "(a) twin runs: a steered store-backed program over a hostile key pool (empty key, 0x00/0xFF runs, doubled StoreMagicBeg with plausible version/length words, StoreMagicEnd, header look-alike, page-size multiples +-1) and hostile values (same generator, values of 4095..8193 bytes, magic at would-be page starts) is executed under 5 variants (plain, Alloc*-built batches, DeferredSort, CachePersisted, all three); after every step and after reopen content must be bit-identical to the reference map and ordered bytewise, hence identical across variants; (b) limit cases: key lengths {0,1,2^24-1,2^24} and value lengths {0,1,2^28-1 (thorough),2^28 (thorough)} for Set/Merge/Del inside a batch with neighbouring operations: documented error or exact round-trip through memory, merge, persist, reopen, neighbours unaffected. distinct_nontrivial = distinct (variant | config class | shape) triples plus limit classes.",
		MinUnits:    20,
		Assumptions: []string{"an oversize operation's bytes may remain in the batch buffer as unreferenced garbage; only visible operations are compared"},
		WorkerTimeout: nil,
	}
	ck.Run = func(c *run.Ctx) *run.ShardResult {
		sr := run.NewShardResult()
		n := 200
		if c.Thorough() {
			n = 2400
		}
		for idx := 0; idx < n; idx++ {
			if !c.Mine(idx) {
				continue
			}
			if sr.Bail() {
				break
			}
			rg := eng.NewRng(c.CaseSeed(idx))
			cfg := eng.GenConfig(rg, pickBacking(rg, "store", "store", "store", "none"), rg.Chance(1, 3))
			gp := eng.GenParams{MinBatches: 3, MaxBatches: 10, Keys: hostileKeyPool(rg), HostileVals: true, Reopen: true, FinalReopen: true,
				Merge: cfg.MergeOp, Idle: true, Park: rg.Chance(1, 3)}
			base := eng.GenProgram(rg, "C19", cfg, gp)
			for _, v := range c19Variants {
				p := *base
				p.Cfg = applyVariant(base.Cfg, v)
				p.Prop = "C19"
				c.Progress(idx, c19Replay{Kind: "twin", Program: &p, Variant: v})
				res, _ := runProgram(&p, eng.Oracles{Content: true, Reopen: true, Store: true}, c.Scratch, idx, nil)
				sr.Evaluations++
				sr.Configs[p.Cfg.Class()]++
				if res.Inconclusive != "" {
					sr.Inconclusive = append(sr.Inconclusive, fmt.Sprintf("case %d/%s: %s", idx, v, res.Inconclusive))
					continue
				}
				for k, x := range res.Counters {
					sr.Counters[k] += x
				}
				for k := range res.Shapes {
					sr.Units[v+"|"+k]++
				}
				for _, vv := range res.Violations {
					rb, _ := json.Marshal(c19Replay{Kind: "twin", Program: &p, Variant: v})
					sr.Violations = append(sr.Violations, run.ViolationRec{Property: "C19", Oracle: vv.Oracle, Class: vv.Class, Disc: v,
						Detail: vv.Detail + "\n  variant=" + v + " program: " + p.Summary(30), Step: vv.Step, Case: idx, Replay: rb})
				}
				if len(sr.Samples) < 1 {
					sr.Samples = append(sr.Samples, map[string]interface{}{"case": idx, "variant": v, "program": p.Summary(10)})
				}
			}
		}
		// limit cases
		type lc struct{ k, v int }
		const maxKey = 1<<24 - 1
		const maxVal = 1<<28 - 1
		var lims []c19Limit
		for _, b := range []string{"none", "store"} {
			for _, op := range []string{"set", "merge", "del", "allocset", "allocmerge", "allocdel"} {
				for _, kl := range []int{0, 1, maxKey, maxKey + 1} {
					lims = append(lims, c19Limit{KeyLen: kl, ValLen: 1, Op: op, Backing: b})
				}
			}
			for _, op := range []string{"set", "merge", "allocset", "allocmerge"} {
				lims = append(lims, c19Limit{KeyLen: 1, ValLen: 0, Op: op, Backing: b})
				lims = append(lims, c19Limit{KeyLen: 0, ValLen: 0, Op: op, Backing: b})
				if c.Thorough() {
					lims = append(lims, c19Limit{KeyLen: 3, ValLen: maxVal, Op: op, Backing: b})
					lims = append(lims, c19Limit{KeyLen: 3, ValLen: maxVal + 1, Op: op, Backing: b})
				}
			}
		}
		for i := range lims {
			idx := 1000000 + i
			if !c.Mine(idx) {
				continue
			}
			if sr.Bail() {
				break
			}
			l := lims[i]
			c.Progress(idx, c19Replay{Kind: "limits", Limit: &l})
			cls, det := runLimit(&l, c.Scratch, idx, sr)
			sr.Evaluations++
			if cls == "inconclusive" || cls == "harness" {
				sr.Inconclusive = append(sr.Inconclusive, fmt.Sprintf("limit %d: %s", i, det))
				continue
			}
			if cls != "" {
				rb, _ := json.Marshal(c19Replay{Kind: "limits", Limit: &l})
				sr.Violations = append(sr.Violations, run.ViolationRec{Property: "C19", Oracle: "limits", Class: cls, Disc: l.Op, Detail: det, Case: idx, Replay: rb})
			}
			if len(sr.Samples) < 2 {
				sr.Samples = append(sr.Samples, map[string]interface{}{"limit_case": l})
			}
		}
		return sr
	}
	ck.Replay = func(body json.RawMessage, scratch string) ([]run.ViolationRec, string) {
		var b c19Replay
		if err := json.Unmarshal(body, &b); err != nil {
			return nil, "bad replay body"
		}
		if b.Kind == "limits" && b.Limit != nil {
			sr := run.NewShardResult()
			cls, det := runLimit(b.Limit, scratch, 0, sr)
			if cls == "inconclusive" || cls == "harness" {
				return nil, det
			}
			if cls != "" {
				return []run.ViolationRec{{Property: "C19", Oracle: "limits", Class: cls, Detail: det}}, ""
			}
			return nil, ""
		}
		if b.Program == nil {
			return nil, "bad replay body"
		}
		b.Program.Prop = "C19"
		res, _ := runProgram(b.Program, eng.Oracles{Content: true, Reopen: true, Store: true}, scratch, 0, nil)
		var out []run.ViolationRec
		for _, v := range res.Violations {
			out = append(out, run.ViolationRec{Property: "C19", Oracle: v.Oracle, Class: v.Class, Disc: b.Variant, Detail: v.Detail, Step: v.Step})
		}
		return out, res.Inconclusive
	}
	run.Register(ck)
}
