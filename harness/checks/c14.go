package checks

import (
	"bytes"
	"encoding/json"
	"fmt"
	"os"
	"path/filepath"
	"sort"

	"github.com/couchbase/moss"

	"mossverif/eng"
	"mossverif/model"
	"mossverif/run"
)

// c14Case describes one directory: the batches that become persisted
// segments (one segment per batch) and the index settings to compare.
type c14Case struct {
	Seed     uint64
	Batches  []*model.Batch
	Settings [][2]int // (SegmentKeysIndexMaxBytes, SegmentKeysIndexMinKeyBytes)
	Merge    bool     `json:",omitempty"` // segments also hold unresolved Merge operands
}

func genKeySet(r *eng.Rng, n int) [][]byte {
	seen := map[string]bool{}
	var keys [][]byte
	style := r.Intn(6)
	// style 5: groups of long keys (100-400 bytes) that differ only in their
	// last few bytes (paths, URLs): any abbreviation of indexed keys would
	// make neighbours indistinguishable
	var groups [][]byte
	for g := 0; g < 1+n/12; g++ {
		groups = append(groups, append([]byte(fmt.Sprintf("g%02d/", g%7)), bytes.Repeat([]byte{byte('a' + r.Intn(26))}, 100+r.Intn(300))...))
	}
	for len(keys) < n {
		var k []byte
		i := len(keys)
		switch style {
		case 0: // fixed width
			k = []byte(fmt.Sprintf("%08d", r.Intn(n*4)))
		case 1: // variable lengths
			k = []byte(fmt.Sprintf("k%d", r.Intn(n*8)))
			for j := 0; j < r.Intn(12); j++ {
				k = append(k, byte('a'+r.Intn(3)))
			}
		case 2: // long keys first (in sort order) then short ones: forces out-of-space truncation
			if r.Chance(1, 3) {
				k = append([]byte("a"), bytes.Repeat([]byte{byte('a' + r.Intn(26))}, 20+r.Intn(60))...)
				k = append(k, []byte(fmt.Sprint(i))...)
			} else {
				k = []byte(fmt.Sprintf("z%d", r.Intn(n*4)))
			}
		case 5: // long shared prefixes
			if r.Chance(1, 6) {
				k = []byte(fmt.Sprintf("g%02d/%d", r.Intn(7), r.Intn(n*4)))
			} else {
				k = append(append([]byte{}, groups[r.Intn(len(groups))]...), []byte(fmt.Sprintf("/%03d", r.Intn(n*2)))...)
			}
		case 3: // shared prefixes
			k = append([]byte("prefix/shared/"), []byte(fmt.Sprintf("%x", r.Intn(n*5)))...)
		default: // short-then-long
			if r.Chance(1, 3) {
				k = append([]byte("z"), bytes.Repeat([]byte{byte('a' + r.Intn(26))}, 20+r.Intn(60))...)
				k = append(k, []byte(fmt.Sprint(i))...)
			} else {
				k = []byte(fmt.Sprintf("a%d", r.Intn(n*4)))
			}
		}
		if r.Chance(1, 200) {
			k = []byte{}
		}
		if seen[string(k)] {
			continue
		}
		seen[string(k)] = true
		keys = append(keys, k)
	}
	return keys
}

func genC14(r *eng.Rng, th bool) *c14Case {
	c := &c14Case{Seed: r.S}
	c.Merge = r.Chance(1, 3)
	nseg := 1 + r.Intn(4)
	for s := 0; s < nseg; s++ {
		n := r.Pick(5, 7, 20, 60, 200, 700)
		if th && r.Chance(1, 4) {
			n = 3000
		}
		keys := genKeySet(r, n)
		b := &model.Batch{}
		for i, k := range keys {
			if s > 0 && r.Chance(1, 10) {
				b.Ops = append(b.Ops, model.Op{Kind: 'D', Key: k})
			} else if c.Merge && r.Chance(1, 2) {
				// without compaction the operand reaches the file unresolved
				b.Ops = append(b.Ops, model.Op{Kind: 'M', Key: k, Val: []byte(fmt.Sprintf("m%d.%d", s, i))})
			} else {
				b.Ops = append(b.Ops, model.Op{Kind: 'S', Key: k, Val: []byte(fmt.Sprintf("v%d.%d", s, i))})
			}
		}
		c.Batches = append(c.Batches, b)
	}
	var totKey int
	for _, b := range c.Batches {
		for _, op := range b.Ops {
			totKey += len(op.Key)
		}
	}
	med := totKey / len(c.Batches) / 2
	for _, mb := range []int{-1, 5, 9, 17, 64, 1000, 100000} {
		for _, mk := range []int{1, med, 1 << 30} {
			if mb < 0 && mk != 1 {
				continue
			}
			c.Settings = append(c.Settings, [2]int{mb, mk})
		}
	}
	return c
}

// indexShape re-computes, with the formulas of the public code path, what
// the index of a segment with the given sorted keys looks like.
func indexShape(keys []string, quota, minKeyBytes int) string {
	tot := 0
	for _, k := range keys {
		tot += len(k)
	}
	if quota <= 0 || tot < minKeyBytes || len(keys) == 0 {
		return "none"
	}
	avg := tot / len(keys)
	nIdx := quota / (avg + 4)
	if nIdx == 0 {
		return "none"
	}
	hop := len(keys)/nIdx + 1
	space := nIdx * avg
	used, cnt := 0, 0
	trunc := false
	for i := 0; i < len(keys); i += hop {
		if cnt >= nIdx {
			trunc = true
			break
		}
		if len(keys[i]) > space-used {
			trunc = true
			break
		}
		used += len(keys[i])
		cnt++
	}
	s := "keys<2"
	if cnt >= 2 {
		s = "keys>=2"
	}
	if hop > 1 {
		s += ",hop>1"
	}
	if trunc {
		s += ",truncated"
	}
	return s
}

func runC14(cs *c14Case, scratch string, idx int, sr *run.ShardResult) (class, detail string) {
	dir := filepath.Join(scratch, fmt.Sprintf("case%06d", idx))
	os.MkdirAll(dir, 0o755)
	defer os.RemoveAll(dir)
	cfg := eng.Config{Backing: "store", Concern: 0, MaxPreMergerBatches: 10, IndexMaxBytes: -1, MergeOp: cs.Merge}
	e := eng.NewExec(cfg, dir, true)
	defer e.D.Detach()
	if err := e.Open(); err != nil {
		return "harness", "open: " + err.Error()
	}
	for _, b := range cs.Batches {
		if err := e.ExecBatch(b); err != nil {
			e.CloseAll()
			return "harness", err.Error()
		}
		if r := e.MergerCycle("plain", ""); r == eng.ResWatchdog {
			e.CloseAll()
			return "inconclusive", "watchdog"
		}
		if r := e.PersisterRound(""); r != eng.ResEnd {
			e.CloseAll()
			return "inconclusive", "persister round: " + string(r)
		}
	}
	nseg := e.StoreStat("num_segments")
	e.CloseAll()
	ref := e.World.Cur()
	keys := ref.SortedKeys()
	// probes
	probeSet := map[string]bool{}
	for _, b := range cs.Batches {
		for _, op := range b.Ops {
			k := op.Key
			probeSet[string(k)] = true
			probeSet[string(append(append([]byte{}, k...), 0))] = true
			if len(k) > 0 {
				probeSet[string(k[:len(k)-1])] = true
				kk := append([]byte{}, k...)
				kk[len(kk)-1]++
				probeSet[string(kk)] = true
				kk2 := append([]byte{}, k...)
				kk2[len(kk2)-1]--
				probeSet[string(kk2)] = true
			}
		}
	}
	probeSet[""] = true
	probeSet["\xff\xff\xff\xff"] = true
	probes := make([]string, 0, len(probeSet))
	for p := range probeSet {
		probes = append(probes, p)
	}
	sort.Strings(probes)
	if len(probes) > 1500 {
		// deterministic thinning
		st := len(probes)/1500 + 1
		var np []string
		for i := 0; i < len(probes); i += st {
			np = append(np, probes[i])
		}
		probes = np
	}
	segKeys := make([][]string, len(cs.Batches))
	for i, b := range cs.Batches {
		for _, op := range b.Ops {
			segKeys[i] = append(segKeys[i], string(op.Key))
		}
		sort.Strings(segKeys[i])
	}
	rr := eng.NewRng(cs.Seed)
	for _, st := range cs.Settings {
		so := moss.StoreOptions{SegmentKeysIndexMaxBytes: st[0], SegmentKeysIndexMinKeyBytes: st[1]}
		mtag := ""
		if cs.Merge {
			so.CollectionOptions.MergeOperator = eng.OrderedMerge{}
			mtag = "|merge-operands"
		}
		for _, sk := range segKeys {
			sr.Units[indexShape(sk, st[0], st[1])+fmt.Sprintf("|segs=%d", nseg)+mtag]++
		}
		var class, detail string
		err := eng.Safe(func() error {
			s, err := moss.OpenStore(dir, so)
			if err != nil {
				return fmt.Errorf("OpenStore: %v", err)
			}
			defer s.Close()
			snap, err := s.Snapshot()
			if err != nil || snap == nil {
				return fmt.Errorf("Snapshot: %v", err)
			}
			defer snap.Close()
			for _, p := range probes {
				v, err := snap.Get([]byte(p), moss.ReadOptions{})
				sr.Counters["index.get_probes"]++
				if err != nil {
					class, detail = "get-error", fmt.Sprintf("setting %v: Get(%q): %v", st, p, err)
					return nil
				}
				w := ref.Get([]byte(p))
				if (v == nil) != (w == nil) || !bytes.Equal(v, w) {
					class, detail = "get-differs", fmt.Sprintf("setting maxBytes=%d minKeyBytes=%d: Get(%q)=%q, reference %q (segments=%d)", st[0], st[1], p, v, w, nseg)
					return nil
				}
			}
			for i := 0; i < 40; i++ {
				a := []byte(probes[rr.Intn(len(probes))])
				b := []byte(probes[rr.Intn(len(probes))])
				var start, end []byte
				switch rr.Intn(4) {
				case 0:
					start, end = a, b
				case 1:
					start = a
				case 2:
					end = b
				}
				ks, vs, err := eng.IterAll(snap, start, end, moss.IteratorOptions{})
				sr.Counters["index.range_probes"]++
				if err != nil {
					class, detail = "range-error", fmt.Sprintf("setting %v: range [%q,%q): %v", st, start, end, err)
					return nil
				}
				want := ref.Range(start, end)
				if len(ks) != len(want) {
					f, l := "", ""
					if len(ks) > 0 {
						f, l = ks[0], ks[len(ks)-1]
					}
					class, detail = "range-differs", fmt.Sprintf("setting maxBytes=%d minKeyBytes=%d: range [%q,%q) yields %d keys (first %q last %q), reference %d", st[0], st[1], start, end, len(ks), f, l, len(want))
					return nil
				}
				for j := range ks {
					if ks[j] != want[j] || !bytes.Equal(vs[j], ref.KV[want[j]]) {
						class, detail = "range-differs", fmt.Sprintf("setting maxBytes=%d minKeyBytes=%d: range [%q,%q) entry %d is %q, reference %q", st[0], st[1], start, end, j, ks[j], want[j])
						return nil
					}
				}
			}
			return nil
		})
		if err != nil {
			return "open-or-fault", fmt.Sprintf("setting %v: %v", st, err)
		}
		if class != "" {
			return class, detail
		}
	}
	sr.Counters["index.directories"]++
	sr.Counters["index.settings"] += int64(len(cs.Settings))
	_ = keys
	return "", ""
}

func init() {
	ck := &run.Check{
		Prop:  "C14",
		Level: "exploration",
		Rule: "for each case a directory with 1-4 persisted segments (one per batch; 5-700 keys, thorough up to 3000; fixed width / variable length / long-then-short / short-then-long / shared-prefix key sets / groups of 100-400 byte keys differing only in their last bytes, later segments overwrite and delete; a third of the directories also hold unresolved Merge operands, read back under the order-sensitive operator) is written once, then opened with 15 index settings (disabled; SegmentKeysIndexMaxBytes in {5,9,17,64,1000,100000} x MinKeyBytes in {1, median, huge}); under every setting Get of every present key, key+\\x00, truncated key, last byte +-1, below-first and above-last probes, and 40 range scans with bounds from the same pool, must equal the reference map. distinct_nontrivial = distinct (index shape recomputed with the public formula: none / <2 keys / >=2 keys, hop>1, truncated | number of segments) pairs.",
		MinUnits:    6,
		Assumptions: []string{"the index shape reported as coverage is recomputed from the published formula, not read from moss internals"},
	}
	ck.Run = func(c *run.Ctx) *run.ShardResult {
		sr := run.NewShardResult()
		n := 192
		if c.Thorough() {
			n = 1600
		}
		for idx := 0; idx < n; idx++ {
			if !c.Mine(idx) {
				continue
			}
			if sr.Bail() {
				break
			}
			rg := eng.NewRng(c.CaseSeed(idx))
			cs := genC14(rg, c.Thorough())
			c.Progress(idx, cs)
			cls, det := runC14(cs, c.Scratch, idx, sr)
			sr.Evaluations++
			if cls == "inconclusive" || cls == "harness" {
				sr.Inconclusive = append(sr.Inconclusive, fmt.Sprintf("case %d: %s", idx, det))
				continue
			}
			if cls != "" {
				rb, _ := json.Marshal(cs)
				sr.Violations = append(sr.Violations, run.ViolationRec{Property: "C14", Oracle: "index-differential", Class: cls, Detail: det, Case: idx, Replay: rb})
			}
			if len(sr.Samples) < 2 {
				var sizes []int
				for _, b := range cs.Batches {
					sizes = append(sizes, len(b.Ops))
				}
				ex := ""
				if len(cs.Batches[0].Ops) > 2 {
					ex = fmt.Sprintf("%q %q %q", cs.Batches[0].Ops[0].Key, cs.Batches[0].Ops[1].Key, cs.Batches[0].Ops[2].Key)
				}
				sr.Samples = append(sr.Samples, map[string]interface{}{"case": idx, "segment_sizes": sizes, "settings": cs.Settings, "first_keys": ex})
			}
		}
		return sr
	}
	ck.Replay = func(body json.RawMessage, scratch string) ([]run.ViolationRec, string) {
		var cs c14Case
		if err := json.Unmarshal(body, &cs); err != nil {
			return nil, "bad replay body"
		}
		sr := run.NewShardResult()
		cls, det := runC14(&cs, scratch, 0, sr)
		if cls == "inconclusive" || cls == "harness" {
			return nil, det
		}
		if cls != "" {
			return []run.ViolationRec{{Property: "C14", Oracle: "index-differential", Class: cls, Detail: det}}, ""
		}
		return nil, ""
	}
	run.Register(ck)
}
