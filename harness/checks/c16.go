package checks

import (
	"encoding/json"
	"fmt"
	"os"
	"path/filepath"
	"strings"
	"sync"
	"sync/atomic"
	"time"

	"github.com/couchbase/moss"

	"mossverif/eng"
	"mossverif/run"
)

// c16Case is one blocking / closing scenario.
type c16Case struct {
	Scenario string
	Seed     uint64
	Cfg      eng.Config
	Writers  int
	N        int
	// Child selects what the writers of the back-pressure scenarios write:
	// "" = one top-level key each; "same" = only a key of child collection
	// A; "distinct" = only a key of the writer's own child collection;
	// "mixed" = odd writers a top-level key, even writers child-only.
	Child string `json:",omitempty"`
}

type pendingCall struct {
	name string
	done chan struct{}
	err  error
}

type callSet struct {
	mu    sync.Mutex
	calls []*pendingCall
}

func (cs *callSet) goCall(name string, fn func() error) *pendingCall {
	pc := &pendingCall{name: name, done: make(chan struct{})}
	cs.mu.Lock()
	cs.calls = append(cs.calls, pc)
	cs.mu.Unlock()
	go func() {
		pc.err = eng.Safe(fn)
		close(pc.done)
	}()
	return pc
}

func (pc *pendingCall) finished() bool {
	select {
	case <-pc.done:
		return true
	default:
		return false
	}
}

// waitAll waits until every call has returned.  If calls are still
// pending while the process is quiescent (all moss goroutines blocked,
// set stable) it reports a hang; if the watchdog expires first the
// result is inconclusive.
func (cs *callSet) waitAll(wd time.Duration) (hang string, inconclusive string) {
	deadline := time.Now().Add(wd)
	for {
		cs.mu.Lock()
		var pend []string
		for _, c := range cs.calls {
			if !c.finished() {
				pend = append(pend, c.name)
			}
		}
		cs.mu.Unlock()
		if len(pend) == 0 {
			return "", ""
		}
		if q, gs := eng.Quiescent(250 * time.Millisecond); q {
			// re-check: a call may have completed meanwhile
			cs.mu.Lock()
			pend = pend[:0]
			for _, c := range cs.calls {
				if !c.finished() {
					pend = append(pend, c.name)
				}
			}
			cs.mu.Unlock()
			if len(pend) == 0 {
				return "", ""
			}
			var txt []string
			for _, g := range gs {
				t := g.Text
				if len(t) > 700 {
					t = t[:700]
				}
				txt = append(txt, t)
			}
			atomic.StoreInt32(&eng.Tainted, 1)
			return fmt.Sprintf("calls still pending at quiescence: %v\nmoss goroutines:\n%s", pend, strings.Join(txt, "\n--\n")), ""
		}
		if time.Now().After(deadline) {
			atomic.StoreInt32(&eng.Tainted, 1)
			return "", fmt.Sprintf("watchdog: calls %v pending but goroutines still running", pend)
		}
		time.Sleep(2 * time.Millisecond)
	}
}

func smallBatch(coll moss.Collection, key string) (moss.Batch, error) {
	b, err := coll.NewBatch(1, 64)
	if err != nil {
		return nil, err
	}
	b.Set([]byte(key), []byte("v"))
	return b, nil
}

func execOne(coll moss.Collection, key string) error {
	b, err := smallBatch(coll, key)
	if err != nil {
		return err
	}
	defer b.Close()
	return coll.ExecuteBatch(b, moss.WriteOptions{})
}

// execKind executes one single-key batch: top-level (child == "") or a
// batch that holds nothing but a child batch for the named child.
func execKind(coll moss.Collection, key, child string) error {
	if child == "" {
		return execOne(coll, key)
	}
	b, err := coll.NewBatch(1, 64)
	if err != nil {
		return err
	}
	defer b.Close()
	if strings.HasPrefix(child, "del:") { // nothing but the deletion of a child collection
		if err := b.DelChildCollection(child[4:]); err != nil {
			return err
		}
		return coll.ExecuteBatch(b, moss.WriteOptions{})
	}
	if strings.HasPrefix(child, "new:") { // nothing but a still empty child collection
		if _, err := b.NewChildCollectionBatch(child[4:], moss.BatchOptions{}); err != nil {
			return err
		}
		return coll.ExecuteBatch(b, moss.WriteOptions{})
	}
	cb, err := b.NewChildCollectionBatch(child, moss.BatchOptions{TotalOps: 1, TotalKeyValBytes: 64})
	if err != nil {
		return err
	}
	if err = cb.Set([]byte(key), []byte("v")); err != nil {
		return err
	}
	return coll.ExecuteBatch(b, moss.WriteOptions{})
}

// childFor maps a writer to the child collection it writes (see c16Case.Child).
func childFor(mode string, w int) string {
	switch mode {
	case "same":
		return "A"
	case "distinct":
		return fmt.Sprintf("W%d", w)
	case "mixed":
		if w%2 == 0 {
			return fmt.Sprintf("W%d", w%3)
		}
	case "delonly":
		return fmt.Sprintf("del:W%d", w%3)
	case "createonly":
		return fmt.Sprintf("new:W%d", w)
	}
	return ""
}

type notifier interface {
	NotifyMerger(string, bool) error
}

// afterCloseChecks asserts the documented behaviour of a closed collection.
func afterCloseChecks(coll moss.Collection, oldBatch moss.Batch) (class, detail string) {
	if _, err := coll.NewBatch(1, 1); err != moss.ErrClosed {
		return "after-close/newbatch", fmt.Sprintf("NewBatch after Close returned %v, want ErrClosed", err)
	}
	if s, err := coll.Snapshot(); err != moss.ErrClosed {
		if s != nil {
			s.Close()
		}
		return "after-close/snapshot", fmt.Sprintf("Snapshot after Close returned %v, want ErrClosed", err)
	}
	if _, err := coll.Get([]byte("x"), moss.ReadOptions{}); err != moss.ErrClosed {
		return "after-close/get", fmt.Sprintf("Get after Close returned %v, want ErrClosed", err)
	}
	if oldBatch != nil {
		var err error
		ferr := eng.Safe(func() error { err = coll.ExecuteBatch(oldBatch, moss.WriteOptions{}); return nil })
		if ferr != nil {
			return "after-close/executebatch-panic", ferr.Error()
		}
		if err != moss.ErrClosed {
			return "after-close/executebatch", fmt.Sprintf("ExecuteBatch of a non-empty batch after Close returned %v, want ErrClosed", err)
		}
	}
	return "", ""
}

func runC16(cs *c16Case, scratch string, idx int, sr *run.ShardResult) (class, detail string) {
	dir := filepath.Join(scratch, fmt.Sprintf("case%06d", idx))
	os.MkdirAll(dir, 0o755)
	defer os.RemoveAll(dir)
	rg := eng.NewRng(cs.Seed)
	wd := 60 * time.Second
	maxPre := cs.Cfg.MaxPre()
	unit := func(u string) { sr.Units[cs.Scenario+"|"+u]++ }
	switch cs.Scenario {
	case "backpressure-close", "backpressure-release":
		// Merger parked: exactly MaxPreMergerBatches batches are accepted, the
		// rest block; then either Close (ErrClosed for the blocked) or a
		// merger cycle (all proceed).
		e := eng.NewExec(cs.Cfg, dir, true)
		defer e.D.Detach()
		if err := e.Open(); err != nil {
			return "inconclusive", "open: " + err.Error()
		}
		coll := e.Coll
		set := &callSet{}
		var calls []*pendingCall
		for w := 0; w < cs.Writers; w++ {
			key := fmt.Sprintf("w%d", w)
			child := childFor(cs.Child, w)
			calls = append(calls, set.goCall("ExecuteBatch#"+key+"@"+child, func() error { return execKind(coll, key, child) }))
		}
		if cs.Child != "" {
			unit("child-batches:" + cs.Child)
		}
		// wait until the accepted ones returned and the others are blocked
		deadline := time.Now().Add(wd)
		var maxTop uint64
		for {
			nret := 0
			for _, c := range calls {
				if c.finished() {
					nret++
				}
			}
			st, _ := coll.Stats()
			if st != nil && st.CurDirtyTopSegments > maxTop {
				maxTop = st.CurDirtyTopSegments
			}
			want := maxPre
			if cs.Writers < want {
				want = cs.Writers
			}
			if nret > maxPre {
				return "backpressure-exceeded", fmt.Sprintf("%d ExecuteBatch calls returned while the merger was parked, MaxPreMergerBatches=%d", nret, maxPre)
			}
			if nret == want && st != nil && int(st.TotExecuteBatchWaitBeg) >= cs.Writers-want {
				break
			}
			if time.Now().After(deadline) {
				return "inconclusive", fmt.Sprintf("watchdog: only %d of %d accepted", nret, want)
			}
			time.Sleep(200 * time.Microsecond)
		}
		// give blocked writers a moment: none may slip through
		time.Sleep(3 * time.Millisecond)
		nret := 0
		for _, c := range calls {
			if c.finished() {
				nret++
			}
		}
		st, _ := coll.Stats()
		if st.CurDirtyTopSegments > maxTop {
			maxTop = st.CurDirtyTopSegments
		}
		if nret > maxPre || int(maxTop) > maxPre {
			return "backpressure-exceeded", fmt.Sprintf("accepted=%d, CurDirtyTopSegments max=%d, MaxPreMergerBatches=%d", nret, maxTop, maxPre)
		}
		if int(maxTop) == maxPre {
			unit("bound-reached")
		}
		sr.Counters["calls.blocked_then_released"] += int64(cs.Writers - nret)
		if cs.Scenario == "backpressure-close" {
			probe, _ := smallBatch(coll, "after-close-probe")
			e.D.DisarmAll()
			set.goCall("Close", func() error { return coll.Close() })
			if h, inc := set.waitAll(wd); h != "" {
				return "hang/close-with-blocked-writers", h
			} else if inc != "" {
				return "inconclusive", inc
			}
			nClosed := 0
			for _, c := range calls {
				if c.err == moss.ErrClosed {
					nClosed++
				} else if c.err != nil {
					return "blocked-writer-wrong-error", fmt.Sprintf("%s returned %v", c.name, c.err)
				}
			}
			// a blocked writer is released by Close: ErrClosed, never success after Close
			if nClosed < cs.Writers-maxPre {
				// some blocked writers succeeded: only legitimate if the merger made room before stopping
				unit("blocked-writer-admitted-during-close")
			}
			unit("closed-with-blocked")
			if c, d := afterCloseChecks(coll, probe); c != "" {
				return c, d
			}
			e.Coll = nil
			e.CloseStore()
		} else {
			// release: directed merger cycles until all writers are through
			for i := 0; i < cs.Writers+2; i++ {
				r := e.MergerCycle("plain", "")
				if r == eng.ResWatchdog {
					return "inconclusive", "watchdog merger cycle"
				}
				if r == eng.ResWaitOutgoing || r == eng.ResNotAtLoop {
					e.PersisterRound("")
					e.D.WaitMergerSettled()
				}
				all := true
				for _, c := range calls {
					if !c.finished() {
						all = false
					}
				}
				if all {
					break
				}
				time.Sleep(time.Millisecond)
				st, _ := coll.Stats()
				if st != nil && int(st.CurDirtyTopSegments) > maxPre {
					return "backpressure-exceeded", fmt.Sprintf("CurDirtyTopSegments=%d > MaxPreMergerBatches=%d", st.CurDirtyTopSegments, maxPre)
				}
			}
			e.D.DisarmAll()
			if h, inc := set.waitAll(wd); h != "" {
				return "hang/writers-not-released-by-merger", h
			} else if inc != "" {
				return "inconclusive", inc
			}
			for _, c := range calls {
				if c.err != nil {
					return "released-writer-error", fmt.Sprintf("%s returned %v", c.name, c.err)
				}
			}
			unit("released-by-merger")
			e.CloseAll()
		}
	case "close-during-update":
		// Close while the persister is inside LowerLevelUpdate (stalled by the
		// application); the lower level resumes only after Close was called.
		cfg := cs.Cfg
		cfg.Backing = "custom"
		e := eng.NewExec(cfg, dir, true)
		defer e.D.Detach()
		e.Lower = eng.NewLower(nil)
		stall := make(chan struct{})
		var entered int32
		e.Lower.Gate = func(call int) {
			if atomic.AddInt32(&entered, 1) == 1 {
				<-stall
			}
		}
		if err := e.Open(); err != nil {
			return "inconclusive", "open: " + err.Error()
		}
		coll := e.Coll
		if err := execOne(coll, "a"); err != nil {
			return "inconclusive", err.Error()
		}
		e.MergerCycle("plain", "")
		e.D.DisarmAll() // persister runs into the stalled update
		deadline := time.Now().Add(wd)
		for atomic.LoadInt32(&entered) == 0 {
			if time.Now().After(deadline) {
				return "inconclusive", "watchdog: persister never entered LowerLevelUpdate"
			}
			time.Sleep(100 * time.Microsecond)
		}
		set := &callSet{}
		// some concurrent activity
		set.goCall("ExecuteBatch#b", func() error {
			err := execOne(coll, "b")
			if err == moss.ErrClosed {
				return nil
			}
			return err
		})
		probe, _ := smallBatch(coll, "after-close-probe")
		cl := set.goCall("Close", func() error { return coll.Close() })
		if !e.D.WaitCross("close.stopping", 1) {
			close(stall)
			return "inconclusive", "watchdog: close.stopping"
		}
		time.Sleep(time.Duration(rg.Intn(2000)) * time.Microsecond)
		if cl.finished() {
			close(stall)
			return "close-did-not-wait-for-persister", "Close returned while LowerLevelUpdate was still running"
		}
		close(stall)
		if h, inc := set.waitAll(wd); h != "" {
			return "hang/close-during-update", h
		} else if inc != "" {
			return "inconclusive", inc
		}
		unit("close-waited-for-update")
		if c, d := afterCloseChecks(coll, probe); c != "" {
			return c, d
		}
	case "close-merger-waitoutgoing":
		// MaxDirtyOps tiny: the merger blocks waiting for the persister, which
		// is parked; Close must still return.
		cfg := cs.Cfg
		cfg.Backing = "custom"
		cfg.MaxDirtyOps = 1
		cfg.MaxDirtyKeyValBytes = 1
		e := eng.NewExec(cfg, dir, true)
		defer e.D.Detach()
		if err := e.Open(); err != nil {
			return "inconclusive", "open: " + err.Error()
		}
		coll := e.Coll
		{
			b, err := coll.NewBatch(2, 64)
			if err != nil {
				return "inconclusive", err.Error()
			}
			b.Set([]byte("k0"), []byte("v"))
			b.Set([]byte("k1"), []byte("v"))
			err = coll.ExecuteBatch(b, moss.WriteOptions{})
			b.Close()
			if err != nil {
				return "inconclusive", err.Error()
			}
		}
		r := e.MergerCycle("plain", "")
		if r != eng.ResWaitOutgoing {
			e.CloseAll()
			return "inconclusive", "merger did not block on the persister: " + string(r)
		}
		unit("merger-blocked-on-persister")
		set := &callSet{}
		set.goCall("Close", func() error { return coll.Close() })
		if !e.D.WaitCross("close.stopping", 1) {
			return "inconclusive", "watchdog: close.stopping"
		}
		e.D.DisarmAll()
		if h, inc := set.waitAll(wd); h != "" {
			return "hang/close-while-merger-waits-for-persister", h
		} else if inc != "" {
			return "inconclusive", inc
		}
		if c, d := afterCloseChecks(coll, nil); c != "" {
			return c, d
		}
	case "round-completes-as-merger-starts-waiting":
		// MaxDirtyOps tiny: the merger decides (under the lock) to wait for
		// the persister's round; exactly between that decision and the wait
		// itself a whole persister round completes.  The wake-up of that
		// round must not be lost: writers and a synchronous notification
		// issued afterwards return.
		cfg := cs.Cfg
		cfg.Backing = "custom"
		cfg.MaxDirtyOps = 1
		cfg.MaxDirtyKeyValBytes = 1
		e := eng.NewExec(cfg, dir, true)
		defer e.D.Detach()
		if err := e.Open(); err != nil {
			return "inconclusive", "open: " + err.Error()
		}
		coll := e.Coll
		for _, k := range []string{"k0", "k1"} {
			if err := execOne(coll, k); err != nil {
				return "inconclusive", err.Error()
			}
			if maxPre < 2 {
				break
			}
		}
		if r := e.MergerCycle("plain", "merger.waitOutgoing"); r != eng.ResParkedMid || e.D.Parked("merger") != "merger.waitOutgoing" {
			e.CloseAll()
			return "inconclusive", fmt.Sprintf("merger did not reach its wait for the persister: %s at %q", r, e.D.Parked("merger"))
		}
		if r := e.PersisterRound(""); r != eng.ResEnd {
			e.CloseAll()
			return "inconclusive", "persister round: " + string(r)
		}
		unit("round-completed-inside-the-window")
		e.D.DisarmAll() // everything runs free from here on
		set := &callSet{}
		set.goCall("writer", func() error {
			for i := 0; i < maxPre+3; i++ {
				if err := execOne(coll, fmt.Sprintf("w%d", i)); err != nil {
					return err
				}
			}
			return nil
		})
		set.goCall("NotifyMerger(sync)", func() error { return coll.(notifier).NotifyMerger("verif", true) })
		if h, inc := set.waitAll(wd); h != "" {
			return "hang/merger-missed-the-persister-wakeup", h
		} else if inc != "" {
			return "inconclusive", inc
		}
		set.mu.Lock()
		for _, c := range set.calls {
			if c.err != nil {
				set.mu.Unlock()
				return "call-error", fmt.Sprintf("%s returned %v", c.name, c.err)
			}
		}
		set.mu.Unlock()
		set2 := &callSet{}
		set2.goCall("Close", func() error { return coll.Close() })
		if h, inc := set2.waitAll(wd); h != "" {
			return "hang/close", h
		} else if inc != "" {
			return "inconclusive", inc
		}
		if c, d := afterCloseChecks(coll, nil); c != "" {
			return c, d
		}
	case "sync-notify-queued-behind-async":
		// One merger cycle that has to answer several queued pings, the
		// synchronous ones behind asynchronous ones.
		e := eng.NewExec(cs.Cfg, dir, true)
		defer e.D.Detach()
		if err := e.Open(); err != nil {
			return "inconclusive", "open: " + err.Error()
		}
		coll := e.Coll
		nt := coll.(notifier)
		// the merger is parked at merger.loop: everything below queues up
		nasync := 1 + int(cs.Seed%3)
		for i := 0; i < nasync; i++ {
			nt.NotifyMerger("verif", false)
		}
		set := &callSet{}
		set.goCall("NotifyMerger(sync)#1", func() error { return nt.NotifyMerger("verif", true) })
		time.Sleep(2 * time.Millisecond)
		nt.NotifyMerger("mergeAll", false)
		set.goCall("NotifyMerger(sync)#2", func() error { return nt.NotifyMerger("verif", true) })
		time.Sleep(2 * time.Millisecond)
		unit(fmt.Sprintf("async-pings-ahead=%d", nasync))
		e.D.DisarmAll()
		if h, inc := set.waitAll(wd); h != "" {
			return "hang/synchronous-notify-behind-asynchronous", h
		} else if inc != "" {
			return "inconclusive", inc
		}
		set2 := &callSet{}
		set2.goCall("Close", func() error { return coll.Close() })
		if h, inc := set2.waitAll(wd); h != "" {
			return "hang/close", h
		} else if inc != "" {
			return "inconclusive", inc
		}
		if c, d := afterCloseChecks(coll, nil); c != "" {
			return c, d
		}
	case "readonly-after-close":
		// A ReadOnly collection (no merger, no persister) must be just as
		// final after Close: a snapshot that was cached before Close must not
		// be served afterwards.
		co := moss.DefaultCollectionOptions
		co.ReadOnly = true
		coll, err := moss.NewCollection(co)
		if err != nil {
			return "inconclusive", err.Error()
		}
		if err := coll.Start(); err != nil {
			return "inconclusive", err.Error()
		}
		var probe moss.Batch
		if cs.N%2 == 0 {
			if err := execOne(coll, "k"); err != nil {
				return "inconclusive", err.Error()
			}
			probe, _ = smallBatch(coll, "after-close-probe")
		}
		sn, err := coll.Snapshot()
		if err != nil {
			return "inconclusive", err.Error()
		}
		if cs.N%3 != 0 {
			sn.Close()
			sn = nil
		}
		set := &callSet{}
		set.goCall("Close", func() error { return coll.Close() })
		if h, inc := set.waitAll(wd); h != "" {
			return "hang/close-readonly", h
		} else if inc != "" {
			return "inconclusive", inc
		}
		c, d := afterCloseChecks(coll, probe)
		if sn != nil {
			sn.Close()
		}
		if c != "" {
			return c, d + " (ReadOnly collection)"
		}
		unit("readonly-closed")
	case "writers-behind-busy-merger":
		// The merger is in the middle of a cycle (held right after its
		// ingest) while MaxPreMergerBatches batches are accepted and one more
		// writer blocks.  Nothing else will ever notify the merger: when it
		// finishes its cycle it has to see for itself that batches are
		// waiting - whatever they hold (top-level keys, only a child batch,
		// only a child deletion or creation) - and take them, which lets the
		// blocked writer in.
		cfg := cs.Cfg
		cfg.IdleMS = 0
		if cfg.Backing == "custom" {
			cfg.Backing = "none"
		}
		e := eng.NewExec(cfg, dir, false)
		defer e.D.Detach()
		if err := e.Open(); err != nil {
			return "inconclusive", "open: " + err.Error()
		}
		coll := e.Coll
		e.D.ArmOnce("merger.ingested")
		if err := execOne(coll, "first"); err != nil {
			return "inconclusive", err.Error()
		}
		if !e.D.WaitParked("merger", "merger.ingested") {
			e.D.DisarmAll()
			return "inconclusive", "watchdog: merger did not reach merger.ingested"
		}
		for w := 0; w < maxPre; w++ {
			if err := execKind(coll, fmt.Sprintf("a%d", w), childFor(cs.Child, w)); err != nil {
				e.D.DisarmAll()
				return "inconclusive", err.Error()
			}
		}
		set := &callSet{}
		blocked := set.goCall("ExecuteBatch#blocked", func() error { return execKind(coll, "blocked", childFor(cs.Child, maxPre)) })
		deadline := time.Now().Add(wd)
		for {
			st, _ := coll.Stats()
			if st != nil && st.TotExecuteBatchWaitBeg >= 1 {
				break
			}
			if blocked.finished() {
				e.D.DisarmAll()
				return "backpressure-exceeded", fmt.Sprintf("%d batches (%s) accepted while the merger was busy, MaxPreMergerBatches=%d", maxPre+1, cs.Child, maxPre)
			}
			if time.Now().After(deadline) {
				e.D.DisarmAll()
				return "inconclusive", "watchdog: the extra writer neither blocked nor returned"
			}
			time.Sleep(200 * time.Microsecond)
		}
		unit("blocked-behind-busy-merger:" + cs.Child)
		e.D.DisarmAll() // the merger finishes its cycle
		if h, inc := set.waitAll(wd); h != "" {
			return "hang/writer-behind-busy-merger", h
		} else if inc != "" {
			return "inconclusive", inc
		}
		if blocked.err != nil {
			return "released-writer-error", fmt.Sprintf("%s returned %v", blocked.name, blocked.err)
		}
		set2 := &callSet{}
		set2.goCall("Close", func() error { return coll.Close() })
		if h, inc := set2.waitAll(wd); h != "" {
			return "hang/close", h
		} else if inc != "" {
			return "inconclusive", inc
		}
		e.Coll = nil
		e.CloseStore()
	case "merge-refused-with-blocked-writers":
		// The application's merge operator refuses to merge (FullMerge
		// returns false) in every merger cycle for a while.  The merger has
		// still emptied the dirty top each time, so writers blocked on
		// back-pressure must get in; every call must return although no
		// merge succeeds, and everything drains once the operator relents.
		cfg := cs.Cfg
		cfg.MergeOp = true
		if cfg.Backing == "custom" {
			cfg.Backing = "none"
		}
		e := eng.NewExec(cfg, dir, true)
		defer e.D.Detach()
		if err := e.Open(); err != nil {
			return "inconclusive", "open: " + err.Error()
		}
		defer atomic.StoreInt32(&eng.MergeFailArmed, 0)
		coll := e.Coll
		nt := coll.(notifier)
		mk := func(fill func(b moss.Batch)) error {
			b, err := coll.NewBatch(4, 256)
			if err != nil {
				return err
			}
			defer b.Close()
			fill(b)
			return coll.ExecuteBatch(b, moss.WriteOptions{})
		}
		// an older version of k in the dirty mid, and a key sorting after it
		if err := mk(func(b moss.Batch) { b.Set([]byte("k"), []byte("v0")); b.Set([]byte("z"), []byte("1")) }); err != nil {
			return "inconclusive", err.Error()
		}
		if r := e.MergerCycle("mergeAll", ""); r == eng.ResWatchdog {
			return "inconclusive", "watchdog merger cycle"
		}
		f0 := atomic.LoadInt64(&eng.MergeFailures)
		atomic.StoreInt32(&eng.MergeFailArmed, 1)
		// the poisoned operand, then enough writers to fill the top and block
		if err := mk(func(b moss.Batch) { b.Merge([]byte("k"), eng.MergePoison); b.Set([]byte("zz"), []byte("2")) }); err != nil {
			return "inconclusive", err.Error()
		}
		set := &callSet{}
		var calls []*pendingCall
		for w := 0; w < cs.Writers+maxPre; w++ {
			key := fmt.Sprintf("w%d", w)
			calls = append(calls, set.goCall("ExecuteBatch#"+key, func() error { return execOne(coll, key) }))
		}
		deadline := time.Now().Add(wd)
		for {
			st, _ := coll.Stats()
			if st != nil && int(st.TotExecuteBatchWaitBeg) >= cs.Writers+1 {
				break
			}
			if time.Now().After(deadline) {
				e.D.DisarmAll()
				return "inconclusive", "watchdog: writers did not block"
			}
			time.Sleep(200 * time.Microsecond)
		}
		// free-running from here: every cycle ingests the top and fails to
		// merge (the queued ping makes the first one a merge-all cycle, so the
		// poisoned operand is resolved whatever MinMergePercentage says)
		nt.NotifyMerger("mergeAll", false)
		e.D.DisarmAll()
		if h, inc := set.waitAll(wd); h != "" {
			return "hang/blocked-writers-while-merge-operator-refuses", h + fmt.Sprintf("\nrefused FullMerge calls so far: %d", atomic.LoadInt64(&eng.MergeFailures)-f0)
		} else if inc != "" {
			return "inconclusive", inc
		}
		for _, c := range calls {
			if c.err != nil {
				return "released-writer-error", fmt.Sprintf("%s returned %v", c.name, c.err)
			}
		}
		if atomic.LoadInt64(&eng.MergeFailures) == f0 {
			return "inconclusive", "the merge operator was never asked to merge the poisoned operand"
		}
		unit("writers-released-while-merges-fail")
		sr.Counters["merge.refused"] += atomic.LoadInt64(&eng.MergeFailures) - f0
		// the operator relents: a synchronous notification and Close must return
		atomic.StoreInt32(&eng.MergeFailArmed, 0)
		set2 := &callSet{}
		set2.goCall("NotifyMerger(sync)", func() error { return nt.NotifyMerger("mergeAll", true) })
		if h, inc := set2.waitAll(wd); h != "" {
			return "hang/notify-after-merge-operator-relents", h
		} else if inc != "" {
			return "inconclusive", inc
		}
		var got []byte
		if cs.N%2 == 0 { // the refused operand was not lost or applied twice
			got, _ = coll.Get([]byte("k"), moss.ReadOptions{})
			if want := "v0|" + string(eng.MergePoison); string(got) != want {
				return "merge-retry-wrong-value", fmt.Sprintf("after the operator relented Get(k)=%q, want %q", got, want)
			}
			unit("value-after-retry-checked")
		}
		set3 := &callSet{}
		set3.goCall("Close", func() error { return coll.Close() })
		if h, inc := set3.waitAll(wd); h != "" {
			return "hang/close", h
		} else if inc != "" {
			return "inconclusive", inc
		}
		if c, d := afterCloseChecks(coll, nil); c != "" {
			return c, d
		}
		e.Coll = nil
		e.CloseStore()
	case "close-while-lower-keeps-failing":
		// A lower level that returns an error from every update, promptly:
		// Close must still return, after a bounded number of further
		// attempts (counted in update calls, not in time), and must be final.
		cfg := cs.Cfg
		cfg.Backing = "custom"
		e := eng.NewExec(cfg, dir, false)
		defer e.D.Detach()
		e.Lower = eng.NewLower(nil)
		e.Lower.FailAlways = true
		if err := e.Open(); err != nil {
			return "inconclusive", "open: " + err.Error()
		}
		coll := e.Coll
		if err := execOne(coll, "k0"); err != nil {
			return "inconclusive", err.Error()
		}
		deadline := time.Now().Add(wd)
		for e.Lower.Calls() < 3 {
			if time.Now().After(deadline) {
				e.CloseAll()
				return "inconclusive", "watchdog: the failing lower level was not called 3 times"
			}
			time.Sleep(200 * time.Microsecond)
		}
		c0 := e.Lower.Calls()
		set := &callSet{}
		pc := set.goCall("Close", func() error { return coll.Close() })
		for !pc.finished() {
			if n := e.Lower.Calls() - c0; n > 100 {
				return "close-not-final/lower-level-still-updated", fmt.Sprintf("Close has not returned although LowerLevelUpdate was called (and returned an error) %d more times since Close was issued", n)
			}
			if time.Now().After(deadline) {
				return "inconclusive", "watchdog: Close pending, lower level not called either"
			}
			time.Sleep(100 * time.Microsecond)
		}
		unit(fmt.Sprintf("closed-after-<=%d-more-attempts", 1+(e.Lower.Calls()-c0)/4*4+3))
		c1 := e.Lower.Calls()
		time.Sleep(5 * time.Millisecond)
		if c2 := e.Lower.Calls(); c2 > c1+1 {
			return "close-not-final/lower-level-updated-after-close", fmt.Sprintf("LowerLevelUpdate called %d times after Close returned", c2-c1)
		}
		if c, d := afterCloseChecks(coll, nil); c != "" {
			return c, d
		}
	case "notify-racing-close":
		// synchronous notifications racing Close, and issued after Close
		e := eng.NewExec(cs.Cfg, dir, false)
		defer e.D.Detach()
		if err := e.Open(); err != nil {
			return "inconclusive", "open: " + err.Error()
		}
		coll := e.Coll
		nt := coll.(notifier)
		execOne(coll, "a")
		set := &callSet{}
		var stop int32
		for g := 0; g < cs.Writers; g++ {
			g := g
			set.goCall(fmt.Sprintf("NotifyMerger(sync)#%d", g), func() error {
				for i := 0; i < cs.N && atomic.LoadInt32(&stop) == 0; i++ {
					kind := "verif"
					if i%3 == 0 {
						kind = "mergeAll"
					}
					nt.NotifyMerger(kind, true)
				}
				return nil
			})
		}
		time.Sleep(time.Duration(rg.Intn(1500)) * time.Microsecond)
		set.goCall("Close", func() error { return coll.Close() })
		time.Sleep(time.Duration(rg.Intn(500)) * time.Microsecond)
		set.goCall("NotifyMerger(sync)#afterClose", func() error { return nt.NotifyMerger("verif", true) })
		h, inc := set.waitAll(wd)
		atomic.StoreInt32(&stop, 1)
		if h != "" {
			cl := "hang/sync-notify-racing-close"
			return cl, h
		} else if inc != "" {
			return "inconclusive", inc
		}
		unit("notify-vs-close")
		if c, d := afterCloseChecks(coll, nil); c != "" {
			return c, d
		}
		e.Coll = nil
		e.CloseStore()
	case "lower-stalled-resumed":
		// The lower level stalls, writers run into back-pressure, then it
		// resumes (failing a few times first): everything drains and returns.
		cfg := cs.Cfg
		cfg.Backing = "custom"
		e := eng.NewExec(cfg, dir, false)
		defer e.D.Detach()
		e.Lower = eng.NewLower(nil)
		stall := make(chan struct{})
		e.Lower.Gate = func(call int) {
			if call == 1 {
				<-stall
			}
		}
		for i := 2; i < 2+cs.N%4; i++ {
			e.Lower.FailPlan[i] = true
		}
		if err := e.Open(); err != nil {
			return "inconclusive", "open: " + err.Error()
		}
		coll := e.Coll
		set := &callSet{}
		var maxTop uint64
		var stopS int32
		go statsSampler(coll, &stopS, &maxTop)
		for w := 0; w < cs.Writers; w++ {
			w := w
			set.goCall(fmt.Sprintf("writer#%d", w), func() error {
				for i := 0; i < cs.N; i++ {
					if err := execOne(coll, fmt.Sprintf("w%d/%d", w, i)); err != nil {
						return err
					}
				}
				return nil
			})
		}
		set.goCall("reader", func() error {
			for i := 0; i < cs.N*4; i++ {
				s, err := coll.Snapshot()
				if err != nil {
					return err
				}
				s.Get([]byte("w0/0"), moss.ReadOptions{})
				s.Close()
				if _, err := coll.Get([]byte("w0/0"), moss.ReadOptions{}); err != nil {
					return err
				}
			}
			return nil
		})
		time.Sleep(time.Duration(1+rg.Intn(5)) * time.Millisecond)
		close(stall)
		h, inc := set.waitAll(wd)
		atomic.StoreInt32(&stopS, 1)
		if h != "" {
			return "hang/lower-level-resumed", h
		} else if inc != "" {
			return "inconclusive", inc
		}
		set.mu.Lock()
		for _, c := range set.calls {
			if c.err != nil {
				set.mu.Unlock()
				return "call-error", fmt.Sprintf("%s returned %v", c.name, c.err)
			}
		}
		set.mu.Unlock()
		if int(atomic.LoadUint64(&maxTop)) > maxPre {
			return "backpressure-exceeded", fmt.Sprintf("CurDirtyTopSegments reached %d with MaxPreMergerBatches=%d", maxTop, maxPre)
		}
		if int(atomic.LoadUint64(&maxTop)) == maxPre {
			unit("bound-reached")
		}
		unit("stalled-then-resumed")
		// drains within bounded notifications
		nt := coll.(notifier)
		drained := false
		set3 := &callSet{}
		set3.goCall("drain by synchronous NotifyMerger", func() error {
			for i := 0; i < 2000; i++ {
				nt.NotifyMerger("verif", true)
				st, _ := coll.Stats()
				if st.CurDirtyOps == 0 && st.CurDirtySegments == 0 {
					drained = true
					break
				}
				time.Sleep(100 * time.Microsecond)
			}
			return nil
		})
		if h, inc := set3.waitAll(wd); h != "" {
			return "hang/synchronous-notify-after-resume", h
		} else if inc != "" {
			return "inconclusive", inc
		}
		if !drained {
			return "not-drained-after-resume", "dirty gauges did not reach zero within 2000 synchronous merger notifications after the lower level resumed"
		}
		set2 := &callSet{}
		set2.goCall("Close", func() error { return coll.Close() })
		if h, inc := set2.waitAll(wd); h != "" {
			return "hang/close", h
		} else if inc != "" {
			return "inconclusive", inc
		}
		if c, d := afterCloseChecks(coll, nil); c != "" {
			return c, d
		}
	case "close-writer-parked-installed":
		// Writer 1 has installed its batch but is held (hook) before it wakes
		// the merger, which is asleep waiting for work; writer 2 blocks on the
		// full dirty top; Close stops the merger without another ingest cycle.
		// The blocked writer must still be released with ErrClosed.
		cfg := cs.Cfg
		cfg.MaxPreMergerBatches = 1
		cfg.IdleMS = 0
		e := eng.NewExec(cfg, dir, false)
		defer e.D.Detach()
		if err := e.Open(); err != nil {
			return "inconclusive", "open: " + err.Error()
		}
		coll := e.Coll
		deadline := time.Now().Add(wd)
		for {
			st, _ := coll.Stats()
			if st != nil && st.TotMergerWaitIncomingBeg > st.TotMergerWaitIncomingEnd {
				break
			}
			if time.Now().After(deadline) {
				return "inconclusive", "watchdog: merger never went to sleep"
			}
			time.Sleep(100 * time.Microsecond)
		}
		e.D.ArmOnce("exec.installed")
		set := &callSet{}
		w1 := set.goCall("ExecuteBatch#w1", func() error { return execOne(coll, "w1") })
		if !e.D.WaitParked("exec", "exec.installed") {
			e.D.DisarmAll()
			return "inconclusive", "watchdog: writer 1 did not reach exec.installed"
		}
		w2 := set.goCall("ExecuteBatch#w2", func() error { return execOne(coll, "w2") })
		for {
			st, _ := coll.Stats()
			if st != nil && st.TotExecuteBatchWaitBeg >= 1 {
				break
			}
			if time.Now().After(deadline) {
				e.D.DisarmAll()
				return "inconclusive", "watchdog: writer 2 did not block"
			}
			time.Sleep(100 * time.Microsecond)
		}
		probe, _ := smallBatch(coll, "after-close-probe")
		set.goCall("Close", func() error { return coll.Close() })
		if !e.D.WaitCross("close.stopping", 1) {
			e.D.DisarmAll()
			return "inconclusive", "watchdog: close.stopping"
		}
		time.Sleep(time.Duration(200+rg.Intn(2000)) * time.Microsecond)
		e.D.DisarmAll()
		if h, inc := set.waitAll(wd); h != "" {
			return "hang/blocked-writer-not-released-by-close", h
		} else if inc != "" {
			return "inconclusive", inc
		}
		if w1.err != nil && w1.err != moss.ErrClosed {
			return "blocked-writer-wrong-error", fmt.Sprintf("writer 1 returned %v", w1.err)
		}
		if w2.err != moss.ErrClosed && w2.err != nil {
			return "blocked-writer-wrong-error", fmt.Sprintf("writer 2 returned %v", w2.err)
		}
		unit("closed-with-merger-asleep-and-top-full")
		if c, d := afterCloseChecks(coll, probe); c != "" {
			return c, d
		}
		e.Coll = nil
		e.CloseStore()
	case "notify-flood":
		// Asynchronous merger notifications arrive faster than the merger
		// drains them (the ping channel is bounded) while writers, readers and
		// the persister keep going: nothing may block forever.
		cfg := cs.Cfg
		if cfg.Backing == "none" {
			cfg.Backing = "custom"
		}
		e := eng.NewExec(cfg, dir, false)
		defer e.D.Detach()
		var dseed = cs.Seed
		e.D.SetDelay(func(point string) {
			x := atomic.AddUint64(&dseed, 0x9E3779B97F4A7C15)
			x = (x ^ (x >> 30)) * 0xBF58476D1CE4E5B9
			if (x>>20)%6 == 0 {
				time.Sleep(time.Duration(10+(x>>8)%300) * time.Microsecond)
			}
		})
		if err := e.Open(); err != nil {
			return "inconclusive", "open: " + err.Error()
		}
		coll := e.Coll
		nt := coll.(notifier)
		set := &callSet{}
		var stop int32
		for w := 0; w < cs.Writers; w++ {
			w := w
			set.goCall(fmt.Sprintf("writer#%d", w), func() error {
				for i := 0; i < cs.N; i++ {
					if err := execOne(coll, fmt.Sprintf("w%d/%d", w, i)); err != nil {
						return err
					}
				}
				return nil
			})
		}
		set.goCall("reader", func() error {
			for i := 0; i < cs.N*4; i++ {
				s, err := coll.Snapshot()
				if err != nil {
					return err
				}
				s.Get([]byte("w0/0"), moss.ReadOptions{})
				s.Close()
			}
			return nil
		})
		for g := 0; g < 3; g++ {
			set.goCall(fmt.Sprintf("async-notifier#%d", g), func() error {
				for i := 0; i < cs.N*40 && atomic.LoadInt32(&stop) == 0; i++ {
					nt.NotifyMerger("verif", false)
				}
				return nil
			})
		}
		h, inc := set.waitAll(wd)
		atomic.StoreInt32(&stop, 1)
		if h != "" {
			return "hang/async-notification-flood", h
		} else if inc != "" {
			return "inconclusive", inc
		}
		set.mu.Lock()
		for _, c := range set.calls {
			if c.err != nil {
				set.mu.Unlock()
				return "call-error", fmt.Sprintf("%s returned %v", c.name, c.err)
			}
		}
		set.mu.Unlock()
		unit("flooded")
		set2 := &callSet{}
		set2.goCall("Close", func() error { return coll.Close() })
		if h, inc := set2.waitAll(wd); h != "" {
			return "hang/close-after-flood", h
		} else if inc != "" {
			return "inconclusive", inc
		}
		e.Coll = nil
		e.CloseStore()
	case "random-close":
		// free-running: writers, readers and notifiers; Close at a random moment
		e := eng.NewExec(cs.Cfg, dir, false)
		defer e.D.Detach()
		var dseed = cs.Seed
		e.D.SetDelay(func(point string) {
			x := atomic.AddUint64(&dseed, 0x9E3779B97F4A7C15)
			x = (x ^ (x >> 30)) * 0xBF58476D1CE4E5B9
			switch (x >> 20) % 8 {
			case 0:
				time.Sleep(time.Duration(10+(x>>8)%200) * time.Microsecond)
			case 1:
				yield()
			}
		})
		if err := e.Open(); err != nil {
			return "inconclusive", "open: " + err.Error()
		}
		coll := e.Coll
		nt := coll.(notifier)
		set := &callSet{}
		var maxTop uint64
		okErr := func(err error) error {
			if err == nil || err == moss.ErrClosed {
				return nil
			}
			return err
		}
		for w := 0; w < cs.Writers; w++ {
			w := w
			set.goCall(fmt.Sprintf("writer#%d", w), func() error {
				for i := 0; i < cs.N; i++ {
					err := execOne(coll, fmt.Sprintf("w%d/%d", w, i))
					if err == moss.ErrClosed {
						return nil
					}
					if err != nil {
						return err
					}
				}
				return nil
			})
		}
		set.goCall("reader", func() error {
			for i := 0; i < cs.N*3; i++ {
				s, err := coll.Snapshot()
				if err == moss.ErrClosed {
					return nil
				}
				if err != nil {
					return err
				}
				s.Get([]byte("w0/0"), moss.ReadOptions{})
				s.Close()
				if _, err := coll.Get([]byte("w0/0"), moss.ReadOptions{}); okErr(err) != nil {
					return err
				}
				st, _ := coll.Stats()
				if st != nil && st.CurDirtyTopSegments > atomic.LoadUint64(&maxTop) {
					atomic.StoreUint64(&maxTop, st.CurDirtyTopSegments)
				}
			}
			return nil
		})
		set.goCall("async-notifier", func() error {
			for i := 0; i < cs.N && !collClosed(coll); i++ {
				nt.NotifyMerger("verif", false)
				time.Sleep(20 * time.Microsecond)
			}
			return nil
		})
		time.Sleep(time.Duration(rg.Intn(4000)) * time.Microsecond)
		set.goCall("Close", func() error { return coll.Close() })
		if h, inc := set.waitAll(wd); h != "" {
			return "hang/random-close", h
		} else if inc != "" {
			return "inconclusive", inc
		}
		set.mu.Lock()
		for _, c := range set.calls {
			if c.err != nil {
				set.mu.Unlock()
				return "call-error", fmt.Sprintf("%s returned %v", c.name, c.err)
			}
		}
		set.mu.Unlock()
		if int(atomic.LoadUint64(&maxTop)) > maxPre {
			return "backpressure-exceeded", fmt.Sprintf("CurDirtyTopSegments reached %d with MaxPreMergerBatches=%d", maxTop, maxPre)
		}
		unit("closed-at-random-moment")
		if c, d := afterCloseChecks(coll, nil); c != "" {
			return c, d
		}
		e.Coll = nil
		e.CloseStore()
	}
	sr.Counters["scenarios."+cs.Scenario]++
	return "", ""
}

func collClosed(c moss.Collection) bool {
	_, err := c.Get([]byte("x"), moss.ReadOptions{})
	return err == moss.ErrClosed
}

var c16Scenarios = []string{"backpressure-close", "backpressure-release", "close-during-update", "close-merger-waitoutgoing",
	"notify-racing-close", "lower-stalled-resumed", "random-close", "random-close", "notify-flood", "notify-flood", "close-writer-parked-installed",
	"round-completes-as-merger-starts-waiting", "close-while-lower-keeps-failing", "sync-notify-queued-behind-async",
	"merge-refused-with-blocked-writers", "writers-behind-busy-merger", "readonly-after-close"}

func genC16(r *eng.Rng, idx int) *c16Case {
	sc := c16Scenarios[idx%len(c16Scenarios)]
	backing := pickBacking(r, "none", "store", "custom")
	cfg := eng.GenConfig(r, backing, false)
	cfg.MaxPreMergerBatches = r.Pick(1, 2, 3, 4)
	cfg.MaxDirtyOps, cfg.MaxDirtyKeyValBytes = 0, 0
	cfg.NoSync = true
	if r.Chance(1, 3) && (sc == "random-close" || sc == "lower-stalled-resumed") {
		cfg.MaxDirtyOps = uint64(r.Pick(1, 4))
		cfg.MaxDirtyKeyValBytes = uint64(r.Pick(8, 64))
		if cfg.Backing == "none" {
			cfg.Backing = "custom"
		}
	}
	c := &c16Case{Scenario: sc, Seed: r.U64(), Cfg: cfg, Writers: cfg.MaxPre() + 1 + r.Intn(4), N: 20 + r.Intn(60)}
	if strings.HasPrefix(sc, "backpressure-") && cfg.Backing != "custom" && r.Chance(1, 2) {
		// the bound is on accepted batches, whatever they touch
		c.Child = []string{"same", "distinct", "mixed"}[r.Intn(3)]
	}
	if sc == "writers-behind-busy-merger" {
		c.Child = []string{"", "same", "distinct", "mixed", "delonly", "createonly"}[r.Intn(6)]
	}
	return c
}

func init() {
	ck := &run.Check{
		Prop:  "C16",
		Level: "exploration",
		Rule: "scripted-then-randomised scenarios on the real code: (1) more writers than MaxPreMergerBatches against a merger parked by the director, then Close (blocked writers must get ErrClosed) or directed merger cycles (all proceed); (2) Close while the persister is inside a stalled LowerLevelUpdate (resumed only after Close signalled stop); (3) Close while the merger waits for the persister (MaxDirtyOps); (4) synchronous NotifyMerger racing and following Close; (5) lower level stalled, failing, then resumed under writers/readers, then bounded drain; (6) free-running writers/readers/notifiers with injected delays and Close at a random moment; (7) a flood of asynchronous notifications; (8) Close with a writer parked between installing its batch and waking the merger; (9) a whole persister round completing exactly between the merger's decision to wait for it and the wait (hook merger.waitOutgoing), then writers and a synchronous notification; (10) synchronous notifications queued behind asynchronous ones for the same merger cycle; (11) Close against a lower level that fails every update promptly: Close returns after a bounded number of further update calls (counted, not timed) and none follow; (12) the back-pressure scenarios also with batches that hold nothing but a child-collection batch (same child / own child / mixed with top-level writers): every accepted batch counts; (13) a merge operator that refuses to merge (FullMerge returns false) in every merger cycle while writers are blocked: the merger still empties the dirty top each time, so all writers must get in, and a synchronous notification and Close return once the operator relents (and the refused operand folded exactly once). Oracles: every API call returns - a call still pending while all moss goroutines are blocked and the set is stable over two stack dumps is a hang (violation); watchdog without quiescence is inconclusive; CurDirtyTopSegments and the number of accepted batches never exceed MaxPreMergerBatches; after Close, NewBatch/Snapshot/Get/ExecuteBatch(non-empty) return ErrClosed. distinct_nontrivial = distinct (scenario | outcome reached: bound reached, closed with blocked writers, ...) units.",
		MinUnits:    6,
		Assumptions: []string{"liveness is restated as 'returns before quiescence', which a finite run decides", "blocking while the lower level is stalled by the harness is expected; verdicts are taken only with all gates open"},
	}
	ck.Run = func(c *run.Ctx) *run.ShardResult {
		sr := run.NewShardResult()
		n := 640
		if c.Thorough() {
			n = 12800
		}
		for idx := 0; idx < n; idx++ {
			if !c.Mine(idx) {
				continue
			}
			if sr.Bail() {
				break
			}
			rg := eng.NewRng(c.CaseSeed(idx))
			cs := genC16(rg, idx)
			c.Progress(idx, cs)
			cls, det := runC16(cs, c.Scratch, idx, sr)
			sr.Evaluations++
			sr.Configs[cs.Cfg.Class()]++
			if cls == "inconclusive" {
				sr.Inconclusive = append(sr.Inconclusive, fmt.Sprintf("case %d (%s): %s", idx, cs.Scenario, det))
				continue
			}
			if cls != "" {
				rb, _ := json.Marshal(cs)
				oracle := "calls-return"
				if strings.HasPrefix(cls, "after-close") {
					oracle = "after-close"
				} else if strings.HasPrefix(cls, "backpressure") {
					oracle = "backpressure"
				}
				sr.Violations = append(sr.Violations, run.ViolationRec{Property: "C16", Oracle: oracle, Class: cls, Disc: cs.Scenario,
					Detail: det + fmt.Sprintf("\n  scenario=%s cfg=%s writers=%d n=%d", cs.Scenario, cs.Cfg.Class(), cs.Writers, cs.N), Case: idx, Replay: rb})
			}
			if len(sr.Samples) < 3 {
				sr.Samples = append(sr.Samples, cs)
			}
		}
		return sr
	}
	ck.Replay = func(body json.RawMessage, scratch string) ([]run.ViolationRec, string) {
		var cs c16Case
		if err := json.Unmarshal(body, &cs); err != nil {
			return nil, "bad replay body"
		}
		for i := 0; i < 5; i++ {
			sr := run.NewShardResult()
			cls, det := runC16(&cs, scratch, i, sr)
			if cls == "inconclusive" {
				return nil, det
			}
			if cls != "" {
				return []run.ViolationRec{{Property: "C16", Oracle: "calls-return", Class: cls, Disc: cs.Scenario, Detail: det}}, ""
			}
		}
		return nil, ""
	}
	run.Register(ck)
}

// statsSampler polls Stats() until told to stop.  Its name is known to the
// quiescence detector, which ignores it: a sampler that is still polling is
// not progress of the system under test.
func statsSampler(coll moss.Collection, stop *int32, maxTop *uint64) {
	for atomic.LoadInt32(stop) == 0 {
		st, _ := coll.Stats()
		if st != nil && st.CurDirtyTopSegments > atomic.LoadUint64(maxTop) {
			atomic.StoreUint64(maxTop, st.CurDirtyTopSegments)
		}
		time.Sleep(50 * time.Microsecond)
	}
}
