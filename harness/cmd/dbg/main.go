package main

import (
	"encoding/json"
	"fmt"
	"os"

	"github.com/couchbase/moss"
	"mossverif/eng"
)

func main() {
	b, _ := os.ReadFile(os.Args[1])
	var rp struct {
		Body struct{ Program *eng.Program } `json:"body"`
		Step int `json:"step"`
	}
	json.Unmarshal(b, &rp)
	p := rp.Body.Program
	p.Steps = p.Steps[:rp.Step+1]
	dir, _ := os.MkdirTemp("/dev/shm", "dbg")
	defer os.RemoveAll(dir)
	r := eng.NewRunner(p, eng.Oracles{}, dir)
	if p.Cfg.Backing == "custom" { r.E.Lower = eng.NewLower(nil) }
	r.KeepOpen = true
	res := r.Run()
	fmt.Println("violations:", res.Violations, res.Inconclusive)
	key := []byte(os.Args[2])
	s, _ := r.E.Coll.Snapshot()
	v, err := s.Get(key, moss.ReadOptions{})
	fmt.Printf("snap.Get=%q %v\n", v, err)
	it, _ := s.StartIterator(nil, nil, moss.IteratorOptions{})
	fmt.Printf("iter type %T\n", it)
	for {
		ex, k, v, err := it.CurrentEx()
		if err != nil { break }
		k2, v2, _ := it.Current()
		fmt.Printf("  op=%x k=%q v=%q | cur %q=%q\n", ex.Operation>>56, k, v, k2, v2)
		if it.Next() != nil { break }
	}
	it2, _ := s.StartIterator(nil, nil, moss.IteratorOptions{IncludeDeletions: true, SkipLowerLevel: true})
	fmt.Printf("iter2 type %T\n", it2)
	for it2 != nil {
		ex, k, v, err := it2.CurrentEx()
		if err != nil { break }
		fmt.Printf("  op=%x k=%q v=%q\n", ex.Operation>>56, k, v)
		if it2.Next() != nil { break }
	}
	if r.E.Lower != nil { fmt.Printf("lower: %q\n", r.E.Lower.Snapshot().Map()) }
}
