// mosscheck: run | worker | replay
package main

import (
	"encoding/json"
	"flag"
	"fmt"
	"os"
	"path/filepath"
	"strconv"

	"mossverif/checks"
	"mossverif/run"
)

func main() {
	if len(os.Args) < 2 {
		fmt.Println("usage: mosscheck run|worker|replay ...")
		os.Exit(3)
	}
	switch os.Args[1] {
	case "run":
		fs := flag.NewFlagSet("run", flag.ExitOnError)
		prop := fs.String("prop", "", "property id")
		tier := fs.String("tier", "quick", "quick|thorough")
		seed := fs.Uint64("seed", 1, "seed")
		verif := fs.String("verif", "/verif", "verif dir")
		raceBin := fs.String("racebin", "", "race binary")
		scratch := fs.String("scratch", "", "scratch root")
		fs.Parse(os.Args[2:])
		self, _ := os.Executable()
		sc := *scratch
		if sc == "" {
			sc = filepath.Join(os.TempDir(), "mossverif."+strconv.Itoa(os.Getpid()))
		}
		code := run.Supervise(run.Options{Prop: *prop, Tier: *tier, Seed: *seed, VerifDir: *verif,
			Bin: self, RaceBin: *raceBin, Scratch: sc})
		os.RemoveAll(sc)
		os.Exit(code)
	case "worker":
		fs := flag.NewFlagSet("worker", flag.ExitOnError)
		prop := fs.String("prop", "", "")
		tier := fs.String("tier", "quick", "")
		seed := fs.Uint64("seed", 1, "")
		shard := fs.Int("shard", 0, "")
		nshards := fs.Int("nshards", 1, "")
		scratch := fs.String("scratch", "", "")
		out := fs.String("out", "", "")
		prog := fs.String("progress", "", "")
		only := fs.Int("only", -1, "run only this case")
		fs.Parse(os.Args[2:])
		ck := run.Registry[*prop]
		if ck == nil {
			fmt.Println("unknown property", *prop)
			os.Exit(3)
		}
		c := run.NewCtx(*prop, *tier, *seed, *shard, *nshards, *scratch, *prog)
		c.Only = *only
		if *only >= 0 {
			c.Verbose = true
			os.MkdirAll(c.Scratch, 0o755)
		}
		res := ck.Run(c)
		if res != nil && res.Counters != nil {
			res.Counters["proc.leaked_maps_reclaimed"] += int64(c.MapsReclaimed)
			if c.MapsMax > 30000 {
				res.Notes = append(res.Notes, fmt.Sprintf("worker %d reached %d memory mappings", *shard, c.MapsMax))
			}
		}
		if *only >= 0 {
			b, _ := json.MarshalIndent(res, "", " ")
			fmt.Println(string(b))
			os.RemoveAll(c.Scratch)
			return
		}
		b, _ := json.Marshal(res)
		if err := os.WriteFile(*out, b, 0o644); err != nil {
			fmt.Println("cannot write result:", err)
			os.Exit(3)
		}
	case "replay":
		if len(os.Args) < 3 {
			fmt.Println("usage: mosscheck replay <file>")
			os.Exit(3)
		}
		b, err := os.ReadFile(os.Args[2])
		if err != nil {
			fmt.Println(err)
			os.Exit(3)
		}
		var rp struct {
			Property string          `json:"property"`
			Body     json.RawMessage `json:"body"`
		}
		if err := json.Unmarshal(b, &rp); err != nil {
			fmt.Println(err)
			os.Exit(3)
		}
		ck := run.Registry[rp.Property]
		if ck == nil || ck.Replay == nil {
			fmt.Println("no replay support for", rp.Property)
			os.Exit(3)
		}
		sc := filepath.Join(os.TempDir(), "mossverif-replay."+strconv.Itoa(os.Getpid()))
		if _, err := os.Stat("/dev/shm"); err == nil {
			sc = filepath.Join("/dev/shm", "mossverif-replay."+strconv.Itoa(os.Getpid()))
		}
		os.MkdirAll(sc, 0o755)
		vs, inc := ck.Replay(rp.Body, sc)
		os.RemoveAll(sc)
		if inc != "" {
			fmt.Println("INCONCLUSIVE", inc)
			os.Exit(3)
		}
		for _, v := range vs {
			fmt.Printf("VIOLATION property=%s replay=%s\n  oracle=%s class=%s disc=%s step=%d\n  %s\n", v.Property, os.Args[2], v.Oracle, v.Class, v.Disc, v.Step, v.Detail)
		}
		if len(vs) > 0 {
			os.Exit(1)
		}
		fmt.Println("replay: no violation")
	case "shrink":
		b, err := os.ReadFile(os.Args[2])
		if err != nil {
			fmt.Println(err)
			os.Exit(3)
		}
		var rp map[string]json.RawMessage
		json.Unmarshal(b, &rp)
		var prop, oracle, class string
		json.Unmarshal(rp["property"], &prop)
		json.Unmarshal(rp["oracle"], &oracle)
		json.Unmarshal(rp["class"], &class)
		o, ok := checks.SteeredOracles[prop]
		if !ok {
			fmt.Println("shrink supports steered properties only")
			os.Exit(3)
		}
		sc, _ := os.MkdirTemp("/dev/shm", "mossverif-shrink")
		nb := checks.ShrinkSteered(prop, rp["body"], oracle, class, sc, o)
		os.RemoveAll(sc)
		rp["body"] = nb
		out, _ := json.MarshalIndent(rp, "", " ")
		os.WriteFile(os.Args[2]+".min", out, 0o644)
		fmt.Println("wrote", os.Args[2]+".min")
	default:
		fmt.Println("unknown command", os.Args[1])
		os.Exit(3)
	}
}
