//go:build !race

package run

// RaceEnabled reports whether the binary was built with -race.
const RaceEnabled = false
