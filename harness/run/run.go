// Package run is the supervisor / worker / evidence machinery shared by
// all checks.
package run

import (
	"encoding/json"
	"fmt"
	"hash/fnv"
	"os"
	"os/exec"
	"path/filepath"
	"regexp"
	"sort"
	"strings"
	"sync"
	"time"
)

// ViolationRec is a violation together with what is needed to replay it.
type ViolationRec struct {
	Property string
	Oracle   string
	Class    string
	Disc     string
	Detail   string
	Step     int
	Case     int             // case index within the check
	Replay   json.RawMessage // engine-specific replay body
}

// ShardResult is what a worker reports.
type ShardResult struct {
	Evaluations  int
	Inconclusive []string
	Violations   []ViolationRec
	Counters     map[string]int64
	Units        map[string]int // distinct non-trivial coverage units
	Configs      map[string]int
	Samples      []interface{}
	NotReached   map[string]int
	Notes        []string
}

// Bail reports whether the shard should stop early: several executions
// already ended in a watchdog, so the tree under test hangs and every
// further case would cost a full watchdog period.
func (s *ShardResult) Bail() bool {
	n := 0
	for _, x := range s.Inconclusive {
		if strings.Contains(x, "watchdog") {
			n++
		}
	}
	if n >= 3 {
		if len(s.Notes) == 0 || !strings.HasPrefix(s.Notes[len(s.Notes)-1], "bailed out") {
			s.Notes = append(s.Notes, fmt.Sprintf("bailed out after %d watchdog timeouts", n))
		}
		return true
	}
	return false
}

// NewShardResult allocates the maps.
func NewShardResult() *ShardResult {
	return &ShardResult{Counters: map[string]int64{}, Units: map[string]int{}, Configs: map[string]int{}, NotReached: map[string]int{}}
}

// Merge folds another result in.
func (s *ShardResult) Merge(o *ShardResult) {
	s.Evaluations += o.Evaluations
	s.Inconclusive = append(s.Inconclusive, o.Inconclusive...)
	s.Violations = append(s.Violations, o.Violations...)
	for k, v := range o.Counters {
		s.Counters[k] += v
	}
	for k, v := range o.Units {
		s.Units[k] += v
	}
	for k, v := range o.Configs {
		s.Configs[k] += v
	}
	for k, v := range o.NotReached {
		s.NotReached[k] += v
	}
	if len(s.Samples) < 5 {
		for _, x := range o.Samples {
			if len(s.Samples) < 5 {
				s.Samples = append(s.Samples, x)
			}
		}
	}
	s.Notes = append(s.Notes, o.Notes...)
}

// Ctx is the context of one shard execution.
type Ctx struct {
	Prop    string
	Tier    string
	Seed    uint64
	Shard   int
	NShards int
	Scratch string // private scratch directory (removed by the supervisor)
	Race    bool   // running inside the -race binary
	Only    int    // >= 0: run just this case (debugging)
	Verbose bool
	prog    *os.File

	progCalls     int
	MapsMax       int // largest number of memory mappings of this worker seen at a case boundary
	MapsReclaimed int // mappings left behind by finished cases (KF-01) that were unmapped
}

// ReclaimHook, set by the engine package's users, unmaps mappings leaked by
// finished cases under the given scratch root (see eng.ReclaimLeakedMaps).
var ReclaimHook func(root string) (total, reclaimed int)

// Thorough reports whether the thorough tier runs.
func (c *Ctx) Thorough() bool { return c.Tier == "thorough" }

// CaseSeed derives the seed of case idx.
func (c *Ctx) CaseSeed(idx int) uint64 {
	h := fnv.New64a()
	fmt.Fprintf(h, "%s/%d/%d", c.Prop, c.Seed, idx)
	return h.Sum64()
}

// Mine reports whether case idx belongs to this shard.
func (c *Ctx) Mine(idx int) bool {
	if c.Only >= 0 {
		return idx == c.Only
	}
	return idx%c.NShards == c.Shard
}

// Progress records what is about to run, so that the supervisor can
// attribute a process death to it.
func (c *Ctx) Progress(idx int, body interface{}) {
	c.progCalls++
	if c.progCalls%16 == 1 && c.Scratch != "" {
		total, n := 0, 0
		if ReclaimHook != nil {
			total, n = ReclaimHook(c.Scratch)
		}
		c.MapsReclaimed += n
		if total > c.MapsMax {
			c.MapsMax = total
		}
	}
	if c.prog == nil {
		return
	}
	b, _ := json.Marshal(map[string]interface{}{"case": idx, "body": body})
	c.prog.Truncate(0)
	c.prog.WriteAt(b, 0)
}

// Check is one registered property check.
type Check struct {
	Prop  string
	Level string // exploration | fault_enumeration
	Rule  string
	// Run executes this shard's share of the case list.
	Run func(c *Ctx) *ShardResult
	// Replay re-executes one replay body and returns the violations.
	Replay func(body json.RawMessage, scratch string) ([]ViolationRec, string)
	// NeedsRace: the supervisor uses the -race binary for the workers.
	NeedsRace bool
	// Assumptions listed in the evidence.
	Assumptions []string
	// MinUnits: fewer distinct units than this makes the run inconclusive.
	MinUnits int
	// Workers overrides the default worker count (0 = 16).
	Workers int
	// WorkerTimeout overrides the per-worker watchdog.
	WorkerTimeout func(tier string) time.Duration
}

// Registry of checks by property id.
var Registry = map[string]*Check{}

// Register adds a check.
func Register(c *Check) { Registry[c.Prop] = c }

// ---------------------------------------------------------------- known findings

// Finding is one entry of known_findings.json.
type Finding struct {
	ID          string `json:"id"`
	Property    string `json:"property"`
	Status      string `json:"status"` // known | fixed
	Commit      string `json:"commit,omitempty"`
	Oracle      string `json:"oracle,omitempty"`
	Class       string `json:"class,omitempty"`
	Disc        string `json:"discriminator,omitempty"`
	Description string `json:"description"`
	Witness     string `json:"witness,omitempty"`
}

// LoadFindings reads the committed known-findings file.
func LoadFindings(path string) ([]Finding, error) {
	b, err := os.ReadFile(path)
	if err != nil {
		if os.IsNotExist(err) {
			return nil, nil
		}
		return nil, err
	}
	var f []Finding
	if err := json.Unmarshal(b, &f); err != nil {
		return nil, err
	}
	return f, nil
}

func matchField(pat, val string) bool {
	if pat == "" || pat == "*" {
		return true
	}
	if strings.HasSuffix(pat, "*") {
		return strings.HasPrefix(val, strings.TrimSuffix(pat, "*"))
	}
	return pat == val
}

// Match returns the known finding that covers the violation, if any.
func Match(fs []Finding, v ViolationRec) *Finding {
	for i := range fs {
		f := &fs[i]
		if f.Status != "known" || f.Property != v.Property {
			continue
		}
		if f.Oracle == "" || f.Class == "" {
			continue // too broad: never matches
		}
		if f.Oracle == v.Oracle && matchField(f.Class, v.Class) && matchField(f.Disc, v.Disc) {
			return f
		}
	}
	return nil
}

// ---------------------------------------------------------------- supervisor

// Options of a supervisor run.
type Options struct {
	Prop     string
	Tier     string
	Seed     uint64
	VerifDir string // /verif
	Bin      string // plain binary
	RaceBin  string // -race binary (may be empty)
	Scratch  string
}

var mossFrame = regexp.MustCompile(`github\.com/couchbase/moss\.`)

// Supervise runs the check with worker processes and writes evidence.
// It returns the process exit code.
func Supervise(o Options) int {
	ck := Registry[o.Prop]
	if ck == nil {
		fmt.Printf("HARNESS-ERROR unknown property %s\n", o.Prop)
		return 3
	}
	start := time.Now()
	n := ck.Workers
	if n <= 0 {
		n = 16
	}
	bin := o.Bin
	if ck.NeedsRace {
		bin = o.RaceBin
		if bin == "" {
			fmt.Printf("HARNESS-ERROR %s needs the -race binary\n", o.Prop)
			return 3
		}
	}
	wt := 30 * time.Minute
	if o.Tier == "thorough" {
		wt = 90 * time.Minute
	}
	if ck.WorkerTimeout != nil {
		wt = ck.WorkerTimeout(o.Tier)
	}
	os.MkdirAll(o.Scratch, 0o755)
	total := NewShardResult()
	var mu sync.Mutex
	var wg sync.WaitGroup
	harnessErr := ""
	var retry []int // shards whose worker ran out of system memory in harness code
	var runShard func(i int, again bool)
	runShard = func(i int, again bool) {
		{
			wdir := filepath.Join(o.Scratch, fmt.Sprintf("w%02d", i))
			os.RemoveAll(wdir)
			os.MkdirAll(wdir, 0o755)
			out := filepath.Join(wdir, "result.json")
			logf := filepath.Join(wdir, "log.txt")
			prog := filepath.Join(wdir, "progress.json")
			lf, _ := os.Create(logf)
			cmd := exec.Command("timeout", "-s", "QUIT", fmt.Sprintf("%d", int(wt.Seconds())), bin, "worker",
				"--prop", o.Prop, "--tier", o.Tier, "--seed", fmt.Sprint(o.Seed),
				"--shard", fmt.Sprint(i), "--nshards", fmt.Sprint(n),
				"--scratch", wdir, "--out", out, "--progress", prog)
			cmd.Stdout = lf
			cmd.Stderr = lf
			cmd.Env = append(os.Environ(), "VERIF_DIR="+o.VerifDir, "GORACE=halt_on_error=0 log_path="+filepath.Join(wdir, "race"))
			err := cmd.Run()
			lf.Close()
			var sr ShardResult
			b, rerr := os.ReadFile(out)
			if rerr == nil && json.Unmarshal(b, &sr) == nil {
				if sr.Counters == nil {
					sr = *NewShardResult()
				}
				mu.Lock()
				total.Merge(&sr)
				mu.Unlock()
				// A -race worker: collect reports from its log files.
				if ck.NeedsRace {
					collectRace(wdir, total, &mu, o.Prop)
				}
				return
			}
			// Worker died.
			logb, _ := os.ReadFile(logf)
			progb, _ := os.ReadFile(prog)
			mu.Lock()
			defer mu.Unlock()
			if ck.NeedsRace {
				collectRaceLocked(wdir, total, o.Prop)
			}
			text := string(logb)
			if strings.Contains(text, "SIGQUIT") && err != nil {
				total.Inconclusive = append(total.Inconclusive, fmt.Sprintf("worker %d: watchdog (timeout -s QUIT); goroutine dump in log", i))
				saveLog(o, i, logb)
				return
			}
			if mossFrame.MatchString(text) && (strings.Contains(text, "panic:") || strings.Contains(text, "fatal error:") || strings.Contains(text, "SIGSEGV") || strings.Contains(text, "SIGBUS")) {
				first := firstFatalLine(text)
				var pr struct {
					Case int             `json:"case"`
					Body json.RawMessage `json:"body"`
				}
				json.Unmarshal(progb, &pr)
				total.Violations = append(total.Violations, ViolationRec{
					Property: o.Prop, Oracle: "process", Class: "process-death", Disc: classifyDeath(first),
					Detail: "worker process died inside moss: " + first + "\n" + tail(text, 3000), Case: pr.Case, Replay: pr.Body})
				return
			}
			if !again && strings.Contains(text, "fatal error: runtime: out of memory") {
				// the machine ran out of memory (no moss frame anywhere in the
				// dump): run this shard once more, alone, after the others
				retry = append(retry, i)
				total.Notes = append(total.Notes, fmt.Sprintf("worker %d ran out of system memory; shard re-run alone", i))
				return
			}
			harnessErr = fmt.Sprintf("worker %d failed without result (err=%v); log tail: %s", i, err, tail(text, 1500))
			saveLog(o, i, logb)
		}
	}
	for i := 0; i < n; i++ {
		wg.Add(1)
		go func(i int) {
			defer wg.Done()
			runShard(i, false)
		}(i)
	}
	wg.Wait()
	for _, i := range retry {
		runShard(i, true)
	}
	wall := time.Since(start).Seconds()

	if harnessErr != "" {
		fmt.Printf("HARNESS-ERROR property=%s %s\n", o.Prop, harnessErr)
		writeEvidence(o, ck, total, wall, 0, nil)
		return 3
	}

	// Known findings.
	findings, ferr := LoadFindings(filepath.Join(o.VerifDir, "known_findings.json"))
	if ferr != nil {
		fmt.Printf("HARNESS-ERROR cannot read known_findings.json: %v\n", ferr)
		return 3
	}
	hit := map[string]int{}
	var fresh []ViolationRec
	for _, v := range total.Violations {
		if f := Match(findings, v); f != nil {
			hit[f.ID]++
			continue
		}
		fresh = append(fresh, v)
	}
	ids := make([]string, 0, len(hit))
	for id := range hit {
		ids = append(ids, id)
	}
	sort.Strings(ids)
	for _, id := range ids {
		for _, f := range findings {
			if f.ID == id {
				fmt.Printf("KNOWN-FINDING: property=%s %s [%s, %d occurrence(s)]\n", f.Property, f.Description, f.ID, hit[id])
			}
		}
	}
	code := 0
	if len(fresh) > 0 {
		code = 1
		os.MkdirAll(filepath.Join(o.VerifDir, "replays"), 0o755)
		// Report one replay per distinct (oracle,class) first, then further
		// discriminators, at most 25 files.
		seen := map[string]bool{}
		seenClass := map[string]bool{}
		nrep := 0
		emit := func(i int, v ViolationRec) {
			nrep++
			path := filepath.Join(o.VerifDir, "replays", fmt.Sprintf("%s-%d-%04d.json", o.Prop, o.Seed, i))
			rb, _ := json.MarshalIndent(map[string]interface{}{
				"property": v.Property, "oracle": v.Oracle, "class": v.Class, "discriminator": v.Disc,
				"detail": v.Detail, "step": v.Step, "tier": o.Tier, "seed": o.Seed, "case": v.Case, "body": v.Replay,
			}, "", " ")
			os.WriteFile(path, rb, 0o644)
			fmt.Printf("VIOLATION property=%s replay=%s\n", o.Prop, path)
			fmt.Printf("  oracle=%s class=%s disc=%s case=%d step=%d\n  %s\n", v.Oracle, v.Class, v.Disc, v.Case, v.Step, firstN(v.Detail, 600))
		}
		for i, v := range fresh {
			ck := v.Oracle + "|" + v.Class
			if seenClass[ck] || nrep >= 25 {
				continue
			}
			seenClass[ck] = true
			seen[ck+"|"+v.Disc] = true
			emit(i, v)
		}
		for i, v := range fresh {
			key := v.Oracle + "|" + v.Class + "|" + v.Disc
			if seen[key] {
				continue
			}
			seen[key] = true
			if nrep >= 25 {
				continue
			}
			emit(i, v)
		}
		fmt.Printf("  (%d violation(s) in %d distinct group(s))\n", len(fresh), len(seen))
		if os.Getenv("VERIF_ALLVIOL") != "" { // developer aid: one line per violation
			for _, v := range fresh {
				fmt.Printf("  ALL oracle=%s class=%s disc=%s case=%d step=%d %s\n", v.Oracle, v.Class, v.Disc, v.Case, v.Step, firstN(strings.SplitN(v.Detail, "\n", 2)[0], 300))
			}
		}
	}
	units := len(total.Units)
	if code == 0 {
		if total.Evaluations == 0 || total.Evaluations == len(total.Inconclusive) {
			fmt.Printf("INCONCLUSIVE property=%s no execution completed (%d inconclusive)\n", o.Prop, len(total.Inconclusive))
			code = 3
		} else if units < max(2, ck.MinUnits) {
			fmt.Printf("INCONCLUSIVE property=%s only %d distinct non-trivial units observed\n", o.Prop, units)
			code = 3
		}
	}
	writeEvidence(o, ck, total, wall, len(fresh), hit)
	fmt.Printf("RESULT property=%s tier=%s seed=%d evaluations=%d distinct_nontrivial=%d inconclusive=%d violations=%d known=%d wall=%.1fs exit=%d\n",
		o.Prop, o.Tier, o.Seed, total.Evaluations, units, len(total.Inconclusive), len(fresh), len(total.Violations)-len(fresh), wall, code)
	if len(total.Inconclusive) > 0 {
		fmt.Printf("  inconclusive (first): %s\n", firstN(total.Inconclusive[0], 300))
	}
	return code
}

func saveLog(o Options, i int, logb []byte) {
	d := filepath.Join(o.VerifDir, "replays")
	os.MkdirAll(d, 0o755)
	os.WriteFile(filepath.Join(d, fmt.Sprintf("%s-%d-worker%02d.log", o.Prop, o.Seed, i)), []byte(tail(string(logb), 200000)), 0o644)
}

func firstFatalLine(text string) string {
	for _, ln := range strings.Split(text, "\n") {
		if strings.HasPrefix(ln, "panic:") || strings.HasPrefix(ln, "fatal error:") || strings.Contains(ln, "unexpected fault address") || strings.HasPrefix(ln, "[signal ") {
			return strings.TrimSpace(ln)
		}
	}
	return "unknown"
}

func classifyDeath(first string) string {
	re := regexp.MustCompile(`0x[0-9a-f]+|\d+`)
	s := re.ReplaceAllString(first, "N")
	if len(s) > 80 {
		s = s[:80]
	}
	return s
}

func tail(s string, n int) string {
	if len(s) <= n {
		return s
	}
	return "..." + s[len(s)-n:]
}

func firstN(s string, n int) string {
	if len(s) <= n {
		return s
	}
	return s[:n] + "..."
}

func writeEvidence(o Options, ck *Check, t *ShardResult, wall float64, nviol int, hit map[string]int) {
	ev := map[string]interface{}{
		"property_id": o.Prop,
		"tier":        o.Tier,
		"seed":        o.Seed,
		"level":       ck.Level,
		"wall_s":      wall,
		"violations":  nviol,
	}
	as := append([]string{}, ck.Assumptions...)
	as = append(as, "verdict covers only the executions produced by this run (seeded case list); see coverage.units_observed",
		"moss built from /repo's working tree with -tags verif; hooks assert nothing and only park/delay/notify")
	ev["assumptions"] = as
	samples := t.Samples
	if len(samples) == 0 {
		samples = []interface{}{"(no sample recorded)"}
	}
	unitNames := make([]string, 0, len(t.Units))
	for k := range t.Units {
		unitNames = append(unitNames, k)
	}
	sort.Strings(unitNames)
	if len(unitNames) > 400 {
		unitNames = unitNames[:400]
	}
	cov := map[string]interface{}{
		"evaluations":         t.Evaluations,
		"distinct_nontrivial": len(t.Units),
		"rule":                ck.Rule,
		"samples":             samples,
		"counters":            t.Counters,
		"configs":             t.Configs,
		"units_observed":      unitNames,
		"inconclusive":        len(t.Inconclusive),
		"known_findings_hit":  hit,
		"not_reached":         t.NotReached,
	}
	if len(t.Violations) > 0 {
		vc := map[string]int{}
		for _, v := range t.Violations {
			vc[v.Oracle+"|"+v.Class+"|"+v.Disc]++
		}
		cov["violation_classes"] = vc
	}
	if len(t.Inconclusive) > 0 {
		cov["inconclusive_first"] = firstN(t.Inconclusive[0], 400)
	}
	if len(t.Notes) > 0 {
		nn := t.Notes
		if len(nn) > 20 {
			nn = nn[:20]
		}
		cov["notes"] = nn
	}
	ev["coverage"] = cov
	b, _ := json.MarshalIndent(ev, "", " ")
	dir := filepath.Join(o.VerifDir, "evidence")
	os.MkdirAll(dir, 0o755)
	os.WriteFile(filepath.Join(dir, o.Prop+".json"), b, 0o644)
}

// ---------------------------------------------------------------- race reports

var raceHdr = "WARNING: DATA RACE"

func collectRace(wdir string, total *ShardResult, mu *sync.Mutex, prop string) {
	mu.Lock()
	defer mu.Unlock()
	collectRaceLocked(wdir, total, prop)
}

func collectRaceLocked(wdir string, total *ShardResult, prop string) {
	files, _ := filepath.Glob(filepath.Join(wdir, "race.*"))
	for _, f := range files {
		b, err := os.ReadFile(f)
		if err != nil {
			continue
		}
		blocks := strings.Split(string(b), "==================")
		for _, blk := range blocks {
			if !strings.Contains(blk, raceHdr) {
				continue
			}
			total.Counters["race.reports"]++
			if !mossFrame.MatchString(blk) || harnessAccesses(blk) {
				total.Notes = append(total.Notes, "race report without moss frame (harness): "+firstN(blk, 400))
				total.Counters["race.harness_only"]++
				continue
			}
			key := raceKey(blk)
			total.Violations = append(total.Violations, ViolationRec{
				Property: prop, Oracle: "race-detector", Class: "data-race", Disc: key,
				Detail: firstN(blk, 4000)})
		}
	}
}

// harnessAccesses reports whether both racing accesses of a report are
// performed by harness code itself (innermost frame of each access in
// mossverif/...): such a report is a defect of the harness - e.g. a hook
// callback racing with the harness' own set-up - whatever moss frames sit
// further up the stack of the goroutine that crossed the hook.  A report in
// which the harness merely *reads memory handed out by moss* still has a moss
// (or runtime/stdlib-under-moss) frame innermost on the other side and counts.
func harnessAccesses(blk string) bool {
	secs := raceAccessHdr.FindAllStringIndex(blk, -1)
	if len(secs) < 2 {
		return false
	}
	for _, s := range secs[:2] {
		lines := strings.Split(blk[s[0]:], "\n")
		if len(lines) < 2 || !strings.HasPrefix(strings.TrimSpace(lines[1]), "mossverif/") {
			return false
		}
	}
	return true
}

var raceAccessHdr = regexp.MustCompile(`(?m)^(Read|Write|Previous read|Previous write|Previous atomic \w+|Atomic \w+) (at|by)`)

// raceKey de-duplicates a report by the innermost moss frames of the two
// accesses, line numbers stripped.
func raceKey(blk string) string {
	var fr []string
	secs := raceAccessHdr.FindAllStringIndex(blk, -1)
	for _, s := range secs {
		rest := blk[s[0]:]
		lines := strings.Split(rest, "\n")
		for _, ln := range lines[1:] {
			ln = strings.TrimSpace(ln)
			if strings.HasPrefix(ln, "github.com/couchbase/moss.") {
				fn := strings.TrimSuffix(ln, "()")
				fr = append(fr, strings.TrimPrefix(fn, "github.com/couchbase/moss."))
				break
			}
			if ln == "" {
				break
			}
		}
		if len(fr) >= 2 {
			break
		}
	}
	sort.Strings(fr)
	return strings.Join(fr, "<->")
}

func max(a, b int) int {
	if a > b {
		return a
	}
	return b
}

// NewCtx builds a worker context.
func NewCtx(prop, tier string, seed uint64, shard, nshards int, scratch, progress string) *Ctx {
	c := &Ctx{Prop: prop, Tier: tier, Seed: seed, Shard: shard, NShards: nshards, Scratch: scratch, Race: RaceEnabled, Only: -1}
	if progress != "" {
		c.prog, _ = os.Create(progress)
	}
	return c
}
