// Package model is the executable reference model of a moss collection:
// an ordered map plus a tree of child collections.  It imports nothing
// from moss.
package model

import (
	"bytes"
	"crypto/sha256"
	"encoding/binary"
	"encoding/hex"
	"sort"
)

// Op is one mutation inside a batch.  Kind is 'S' (set), 'D' (del) or
// 'M' (merge).
type Op struct {
	Kind  byte
	Key   []byte
	Val   []byte `json:",omitempty"`
	Alloc bool   `json:",omitempty"` // built with Alloc/AllocSet/... (harness-side detail)
}

// ChildBatch is a batch addressed to a named child collection.
type ChildBatch struct {
	Name string
	B    *Batch
}

// Batch is a (recursive) batch of mutations.
type Batch struct {
	Ops         []Op         `json:",omitempty"`
	Children    []ChildBatch `json:",omitempty"`
	DelChildren []string     `json:",omitempty"`
}

// NumOps counts the operations in the batch including child batches.
func (b *Batch) NumOps() int {
	n := len(b.Ops)
	for _, c := range b.Children {
		n += c.B.NumOps()
	}
	return n
}

// ChildOnly reports whether the batch has no top-level operations but
// mentions at least one child (by batch or deletion).
func (b *Batch) ChildOnly() bool {
	return len(b.Ops) == 0 && (len(b.Children) > 0 || len(b.DelChildren) > 0)
}

// Empty reports whether executing the batch is a no-op by definition.
func (b *Batch) Empty() bool {
	return len(b.Ops) == 0 && len(b.Children) == 0 && len(b.DelChildren) == 0
}

// Coll is the reference content of one collection.
type Coll struct {
	KV map[string][]byte // live keys; values non-nil (maybe empty)
	Ch map[string]*Coll
}

// New returns an empty collection.
func New() *Coll {
	return &Coll{KV: map[string][]byte{}, Ch: map[string]*Coll{}}
}

// Clone returns a deep copy (value byte slices are shared; they are
// never mutated).
func (c *Coll) Clone() *Coll {
	rv := &Coll{KV: make(map[string][]byte, len(c.KV)), Ch: make(map[string]*Coll, len(c.Ch))}
	for k, v := range c.KV {
		rv.KV[k] = v
	}
	for n, ch := range c.Ch {
		rv.Ch[n] = ch.Clone()
	}
	return rv
}

// MergeFn folds one operand onto an existing value (nil = absent).
type MergeFn func(key, existing, operand []byte) []byte

// Apply applies a batch.
func (c *Coll) Apply(b *Batch, merge MergeFn) {
	if b == nil {
		return
	}
	for _, op := range b.Ops {
		k := string(op.Key)
		switch op.Kind {
		case 'S':
			v := op.Val
			if v == nil {
				v = []byte{}
			}
			c.KV[k] = v
		case 'D':
			delete(c.KV, k)
		case 'M':
			ex, ok := c.KV[k]
			if !ok {
				ex = nil
			}
			c.KV[k] = merge(op.Key, ex, op.Val)
		}
	}
	for _, name := range b.DelChildren {
		delete(c.Ch, name)
	}
	for _, cb := range b.Children {
		ch, ok := c.Ch[cb.Name]
		if !ok {
			ch = New()
			c.Ch[cb.Name] = ch
		}
		ch.Apply(cb.B, merge)
	}
}

// SortedKeys returns the live keys in bytes.Compare order.
func (c *Coll) SortedKeys() []string {
	ks := make([]string, 0, len(c.KV))
	for k := range c.KV {
		ks = append(ks, k)
	}
	sort.Strings(ks)
	return ks
}

// ChildNames returns the sorted child names.
func (c *Coll) ChildNames() []string {
	ns := make([]string, 0, len(c.Ch))
	for n := range c.Ch {
		ns = append(ns, n)
	}
	sort.Strings(ns)
	return ns
}

// Get returns the value (nil if absent).
func (c *Coll) Get(k []byte) []byte {
	v, ok := c.KV[string(k)]
	if !ok {
		return nil
	}
	return v
}

// At returns the collection at a child path, or nil.
func (c *Coll) At(path []string) *Coll {
	cur := c
	for _, p := range path {
		if cur == nil {
			return nil
		}
		cur = cur.Ch[p]
	}
	return cur
}

// Range returns the sorted live keys k with start <= k < end (nil
// bounds = unbounded).
func (c *Coll) Range(start, end []byte) []string {
	var out []string
	for _, k := range c.SortedKeys() {
		if start != nil && bytes.Compare([]byte(k), start) < 0 {
			continue
		}
		if end != nil && bytes.Compare([]byte(k), end) >= 0 {
			continue
		}
		out = append(out, k)
	}
	return out
}

// Hash is the canonical content hash (DESIGN.md A.4).
func (c *Coll) Hash() string {
	h := c.hash()
	return hex.EncodeToString(h[:])
}

func (c *Coll) hash() [32]byte {
	h := sha256.New()
	var lb [8]byte
	wr := func(b []byte) {
		binary.LittleEndian.PutUint64(lb[:], uint64(len(b)))
		h.Write(lb[:])
		h.Write(b)
	}
	for _, k := range c.SortedKeys() {
		wr([]byte(k))
		wr(c.KV[k])
	}
	h.Write([]byte{0xFE})
	for _, n := range c.ChildNames() {
		wr([]byte(n))
		ch := c.Ch[n].hash()
		h.Write(ch[:])
	}
	var out [32]byte
	copy(out[:], h.Sum(nil))
	return out
}

// Equal reports deep equality.
func (c *Coll) Equal(o *Coll) bool {
	if c == nil || o == nil {
		return c == o
	}
	return c.hash() == o.hash()
}

// Size returns number of live keys in the whole tree.
func (c *Coll) Size() int {
	n := len(c.KV)
	for _, ch := range c.Ch {
		n += ch.Size()
	}
	return n
}

// Paths lists every child path of the tree (including the root = empty path),
// in deterministic order.
func (c *Coll) Paths() [][]string {
	var out [][]string
	var rec func(cur *Coll, p []string)
	rec = func(cur *Coll, p []string) {
		out = append(out, append([]string{}, p...))
		for _, n := range cur.ChildNames() {
			rec(cur.Ch[n], append(p, n))
		}
	}
	rec(c, nil)
	return out
}

// World tracks every prefix state of a history.
type World struct {
	Merge  MergeFn
	Ref    []*Coll          // Ref[k] = content after k batches
	NOps   []int            // NOps[k] = operations (incl. child batches) in batch k; NOps[0] = 0
	ByHash map[string][]int // hash -> prefix indexes (ascending)
}

// NewWorld starts a history from an initial content (may be nil = empty).
func NewWorld(init *Coll, merge MergeFn) *World {
	if init == nil {
		init = New()
	}
	w := &World{Merge: merge, ByHash: map[string][]int{}}
	w.push(init)
	return w
}

func (w *World) push(c *Coll) {
	w.Ref = append(w.Ref, c)
	if len(w.NOps) < len(w.Ref) {
		w.NOps = append(w.NOps, 0)
	}
	h := c.Hash()
	w.ByHash[h] = append(w.ByHash[h], len(w.Ref)-1)
}

// N is the number of batches applied.
func (w *World) N() int { return len(w.Ref) - 1 }

// Cur is the current reference content.
func (w *World) Cur() *Coll { return w.Ref[len(w.Ref)-1] }

// Apply records one more batch.
func (w *World) Apply(b *Batch) {
	c := w.Cur().Clone()
	c.Apply(b, w.Merge)
	w.push(c)
	w.NOps[len(w.Ref)-1] = b.NumOps()
}

// PendingOps sums the operations of the batches after prefix k.
func (w *World) PendingOps(k int) int {
	n := 0
	for i := k + 1; i < len(w.Ref) && i < len(w.NOps); i++ {
		n += w.NOps[i]
	}
	return n
}

// Prefixes returns the prefix indexes whose content hashes to h.
func (w *World) Prefixes(h string) []int { return w.ByHash[h] }

// TruncateTo makes prefix k the current state (used after a revert or
// an early close: later batches are forgotten, history restarts there).
func (w *World) TruncateTo(k int) {
	for i := k + 1; i < len(w.Ref); i++ {
		h := w.Ref[i].Hash()
		lst := w.ByHash[h]
		var nl []int
		for _, x := range lst {
			if x != i {
				nl = append(nl, x)
			}
		}
		if len(nl) == 0 {
			delete(w.ByHash, h)
		} else {
			w.ByHash[h] = nl
		}
	}
	w.Ref = w.Ref[:k+1]
	if len(w.NOps) > k+1 {
		w.NOps = w.NOps[:k+1]
	}
}
