package eng

import (
	"bufio"
	"fmt"
	"os"
	"path/filepath"
	"runtime"
	"sort"
	"strings"
	"sync/atomic"
	"syscall"
	"time"
)

// GInfo is one goroutine of a stack dump.
type GInfo struct {
	ID    string
	State string
	Text  string
}

// Goroutines returns a parsed dump of all goroutines.
func Goroutines() []GInfo {
	buf := make([]byte, 1<<20)
	for {
		n := runtime.Stack(buf, true)
		if n < len(buf) {
			buf = buf[:n]
			break
		}
		buf = make([]byte, 2*len(buf))
	}
	var out []GInfo
	for _, blk := range strings.Split(string(buf), "\n\n") {
		blk = strings.TrimSpace(blk)
		if !strings.HasPrefix(blk, "goroutine ") {
			continue
		}
		hdr := blk
		if i := strings.IndexByte(blk, '\n'); i >= 0 {
			hdr = blk[:i]
		}
		// "goroutine 12 [chan receive, 2 minutes]:"
		g := GInfo{Text: blk}
		f := strings.Fields(hdr)
		if len(f) >= 2 {
			g.ID = f[1]
		}
		if i := strings.IndexByte(hdr, '['); i >= 0 {
			st := hdr[i+1:]
			if j := strings.IndexAny(st, ",]"); j >= 0 {
				st = st[:j]
			}
			g.State = st
		}
		out = append(out, g)
	}
	return out
}

// MossGoroutines returns the goroutines that have a moss frame, excluding
// the calling goroutine.
func MossGoroutines() []GInfo {
	var out []GInfo
	for _, g := range Goroutines() {
		if g.State == "running" && strings.Contains(g.Text, "eng.Goroutines") {
			continue
		}
		// goroutines of the harness' own workload (package checks) count as
		// well: a reader that is busy comparing results is progress
		if strings.Contains(g.Text, "github.com/couchbase/moss.") || strings.Contains(g.Text, "mossverif/checks.") {
			out = append(out, g)
		}
	}
	return out
}

func blockedState(s string) bool {
	switch {
	case s == "chan receive", s == "chan send", s == "select", s == "sync.Cond.Wait",
		strings.HasPrefix(s, "semacquire"), s == "sync.Mutex.Lock", s == "sync.RWMutex.Lock",
		s == "sync.RWMutex.RLock", s == "select (no cases)", s == "sync.WaitGroup.Wait",
		s == "chan receive (nil chan)", s == "chan send (nil chan)":
		return true
	}
	return false
}

func sig(gs []GInfo) string {
	var p []string
	for _, g := range gs {
		p = append(p, g.ID+":"+g.State)
	}
	sort.Strings(p)
	return strings.Join(p, ",")
}

// Quiescent reports whether every goroutine with a moss frame is blocked
// and the set is stable over two dumps.  The idle-merger waker (which
// only sleeps and polls counters) is ignored.
func Quiescent(gap time.Duration) (bool, []GInfo) {
	filter := func(gs []GInfo) []GInfo {
		var o []GInfo
		for _, g := range gs {
			if strings.Contains(g.Text, "idleMergerWaker") || strings.Contains(g.Text, "statsSampler") {
				continue
			}
			o = append(o, g)
		}
		return o
	}
	a := filter(MossGoroutines())
	for _, g := range a {
		if !blockedState(g.State) {
			return false, a
		}
	}
	time.Sleep(gap)
	b := filter(MossGoroutines())
	for _, g := range b {
		if !blockedState(g.State) {
			return false, b
		}
	}
	return sig(a) == sig(b), b
}

// WaitQuiescent waits until no moss goroutine exists at all that is not
// blocked (used after closing everything: asynchronous file removals must
// have finished).  Returns false on watchdog.
func WaitQuiescent(max time.Duration) bool {
	deadline := time.Now().Add(max)
	for {
		busy := false
		for _, g := range MossGoroutines() {
			if strings.Contains(g.Text, "idleMergerWaker") {
				continue
			}
			if strings.Contains(g.Text, "removeFileOnClose") || !blockedState(g.State) {
				busy = true
			}
		}
		if !busy {
			return true
		}
		if time.Now().After(deadline) {
			return false
		}
		time.Sleep(2 * time.Millisecond)
	}
}

// ProcRefs lists descriptors and mappings of this process that refer to
// files under dir.
func ProcRefs(dir string) (fds []string, maps []string) {
	dir = filepath.Clean(dir)
	ents, _ := os.ReadDir("/proc/self/fd")
	for _, e := range ents {
		t, err := os.Readlink("/proc/self/fd/" + e.Name())
		if err != nil {
			continue
		}
		if strings.HasPrefix(t, dir+"/") || t == dir {
			fds = append(fds, e.Name()+"->"+strings.TrimPrefix(t, dir+"/"))
		}
	}
	f, err := os.Open("/proc/self/maps")
	if err == nil {
		sc := bufio.NewScanner(f)
		for sc.Scan() {
			ln := sc.Text()
			if strings.Contains(ln, dir+"/") {
				fl := strings.Fields(ln)
				maps = append(maps, fl[0]+" "+strings.TrimPrefix(fl[len(fl)-1], dir+"/"))
			}
		}
		f.Close()
	}
	sort.Strings(fds)
	return
}

// ReclaimLeakedMaps unmaps memory mappings of this process that refer to
// files in directories under root that no longer exist.  Known finding
// KF-01 (child footers are never released) leaves such mappings behind in
// every case that uses child collections; a worker that runs thousands of
// cases would otherwise run into vm.max_map_count and see mmap fail with
// ENOMEM - in moss, as an "unprovoked" error.  Only mappings whose whole
// case directory has already been removed are touched (a finished case),
// and only while no moss goroutine is runnable.  Returns the number of
// mappings of this process before, and how many were unmapped.
func ReclaimLeakedMaps(root string) (total, reclaimed int) {
	if atomic.LoadInt32(&Tainted) != 0 {
		return 0, 0
	}
	root = filepath.Clean(root)
	f, err := os.Open("/proc/self/maps")
	if err != nil {
		return 0, 0
	}
	type rng struct{ lo, hi uintptr }
	var victims []rng
	exists := map[string]bool{}
	sc := bufio.NewScanner(f)
	sc.Buffer(make([]byte, 1<<16), 1<<20)
	for sc.Scan() {
		total++
		ln := sc.Text()
		i := strings.Index(ln, root+"/")
		if i < 0 {
			continue
		}
		path := strings.TrimSuffix(ln[i:], " (deleted)")
		dir := filepath.Dir(path)
		ex, seen := exists[dir]
		if !seen {
			_, err := os.Stat(dir)
			ex = err == nil
			exists[dir] = ex
		}
		if ex {
			continue
		}
		var lo, hi uintptr
		if n, _ := fmt.Sscanf(ln, "%x-%x", &lo, &hi); n != 2 || hi <= lo {
			continue
		}
		victims = append(victims, rng{lo, hi})
	}
	f.Close()
	if len(victims) == 0 {
		return total, 0
	}
	for _, g := range MossGoroutines() {
		if strings.Contains(g.Text, "idleMergerWaker") {
			continue
		}
		if !blockedState(g.State) {
			return total, 0 // something of moss still runs: leave everything alone
		}
	}
	for _, v := range victims {
		if _, _, e := syscall.Syscall(syscall.SYS_MUNMAP, v.lo, v.hi-v.lo, 0); e == 0 {
			reclaimed++
		}
	}
	return total, reclaimed
}
