package eng

import (
	"strings"
	"sync"
	"sync/atomic"
	"time"

	"github.com/couchbase/moss"
)

// HookEvent is one recorded hook crossing.
type HookEvent struct {
	Tick  int64
	Point string
}

// Clock is the single logical clock used for all event timestamps.
var Clock int64

// Tick returns the next logical timestamp.
func Tick() int64 { return atomic.AddInt64(&Clock, 1) }

// Director receives every hook crossing of the moss instance under test.
// In steered mode it parks the background goroutines at armed points and
// releases them on request; in free-running mode it injects delays.
type Director struct {
	mu   sync.Mutex
	cond *sync.Cond

	coll  interface{} // current collection object (adopted on first crossing)
	store interface{}

	armed   map[string]bool   // point -> park there
	once    map[string]bool   // point -> disarm after one park
	parked  map[string]string // role -> point ("" = running)
	tickets map[string]int    // role -> pending releases
	gen     map[string]int    // role -> number of parks so far
	cross   map[string]int    // point -> crossings

	waitOutgoing bool

	Trace    []HookEvent // bounded log of crossings
	traceMax int

	// Delay is called (outside the director lock) after each crossing
	// in free-running mode.
	Delay func(point string)

	// OnCross, when set, is invoked under the director lock at every
	// crossing (used by tracing substrates to insert markers).
	OnCross func(point string)

	Watchdog time.Duration
}

var current atomic.Value // *Director

// Tainted is set once a watchdog has fired in this process: an instance may
// have been abandoned with its goroutines alive, so nothing that presumes
// finished cases to be dead (ReclaimLeakedMaps) may run any more.
var Tainted int32

type dirBox struct{ d *Director }

// retired remembers the collection / store objects of instances a director
// has let go of (reopen, end of a case).  Goroutines of such an instance may
// still cross hooks (asynchronous file removal, or an instance that could not
// be closed after a watchdog); they must neither be adopted by the next
// director nor touch its state.  The ring keeps references, so an address
// cannot be reused by a live instance while it is listed.
var retired struct {
	mu   sync.Mutex
	ring [128]interface{}
	n    int
}

func retire(objs ...interface{}) {
	retired.mu.Lock()
	for _, o := range objs {
		if o != nil {
			retired.ring[retired.n%len(retired.ring)] = o
			retired.n++
		}
	}
	retired.mu.Unlock()
}

func isRetired(obj interface{}) bool {
	if obj == nil {
		return false
	}
	retired.mu.Lock()
	defer retired.mu.Unlock()
	for _, o := range retired.ring {
		if o == obj {
			return true
		}
	}
	return false
}

func init() {
	current.Store(dirBox{})
	moss.VerifSetHook(func(point string, obj interface{}) {
		if isRetired(obj) {
			return
		}
		if b, ok := current.Load().(dirBox); ok && b.d != nil {
			b.d.at(point, obj)
		}
	})
}

// SetDelay installs the free-running delay function.
func (d *Director) SetDelay(f func(point string)) {
	d.mu.Lock()
	d.Delay = f
	d.mu.Unlock()
}

// SetOnCross installs the crossing callback.
func (d *Director) SetOnCross(f func(point string)) {
	d.mu.Lock()
	d.OnCross = f
	d.mu.Unlock()
}

// NewDirector creates a director and makes it the process-wide receiver.
func NewDirector() *Director {
	d := &Director{
		armed:    map[string]bool{},
		once:     map[string]bool{},
		parked:   map[string]string{},
		tickets:  map[string]int{},
		gen:      map[string]int{},
		cross:    map[string]int{},
		traceMax: 4096,
		Watchdog: 25 * time.Second,
	}
	d.cond = sync.NewCond(&d.mu)
	current.Store(dirBox{d})
	return d
}

// Detach stops routing hooks to this director.
func (d *Director) Detach() {
	d.DisarmAll()
	d.mu.Lock()
	retire(d.coll, d.store)
	d.mu.Unlock()
	if b, ok := current.Load().(dirBox); ok && b.d == d {
		current.Store(dirBox{})
	}
}

func roleOf(point string) string {
	i := strings.IndexByte(point, '.')
	r := point
	if i >= 0 {
		r = point[:i]
	}
	if r == "store" {
		return "persister"
	}
	return r
}

func isCollPoint(point string) bool {
	return !strings.HasPrefix(point, "store.")
}

func (d *Director) at(point string, obj interface{}) {
	d.mu.Lock()
	if isCollPoint(point) {
		if d.coll == nil {
			d.coll = obj
		} else if d.coll != obj {
			d.mu.Unlock()
			return // stale instance
		}
	} else {
		if d.store == nil {
			d.store = obj
		} else if d.store != obj {
			d.mu.Unlock()
			return
		}
	}
	d.cross[point]++
	if len(d.Trace) < d.traceMax {
		d.Trace = append(d.Trace, HookEvent{Tick(), point})
	}
	if d.OnCross != nil {
		d.OnCross(point)
	}
	switch point {
	case "merger.waitOutgoing":
		d.waitOutgoing = true
	case "merger.loop":
		d.waitOutgoing = false
	case "persister.end":
		// The persister closed the channel the merger may be waiting on;
		// the merger now runs on to merger.loop.
		d.waitOutgoing = false
	}
	if d.armed[point] {
		role := roleOf(point)
		d.parked[role] = point
		d.gen[role]++
		d.cond.Broadcast()
		for d.armed[point] && d.tickets[role] == 0 {
			d.cond.Wait()
		}
		if d.tickets[role] > 0 {
			d.tickets[role]--
		}
		if d.once[point] {
			delete(d.armed, point)
			delete(d.once, point)
		}
		d.parked[role] = ""
	}
	d.cond.Broadcast()
	delay := d.Delay
	d.mu.Unlock()
	if delay != nil {
		delay(point)
	}
}

// NewInstance forgets the adopted collection/store objects and resets
// per-instance counters; called right before (re)opening.
func (d *Director) NewInstance() {
	d.mu.Lock()
	retire(d.coll, d.store)
	d.coll, d.store = nil, nil
	d.cross = map[string]int{}
	d.parked = map[string]string{}
	d.tickets = map[string]int{}
	d.waitOutgoing = false
	d.mu.Unlock()
}

// ArmSteering arms the two permanent parking points.
func (d *Director) ArmSteering() {
	d.mu.Lock()
	d.armed["merger.loop"] = true
	d.armed["persister.begin"] = true
	d.mu.Unlock()
}

// ArmOnce arms an intermediate point for a single park.
func (d *Director) ArmOnce(point string) {
	d.mu.Lock()
	d.armed[point] = true
	d.once[point] = true
	d.mu.Unlock()
}

// DisarmAll opens every gate; parked goroutines continue.
func (d *Director) DisarmAll() {
	d.mu.Lock()
	d.armed = map[string]bool{}
	d.once = map[string]bool{}
	d.cond.Broadcast()
	d.mu.Unlock()
}

// Cross returns the crossing count of a point.
func (d *Director) Cross(point string) int {
	d.mu.Lock()
	defer d.mu.Unlock()
	return d.cross[point]
}

// Parked returns where a role is parked ("" if running).
func (d *Director) Parked(role string) string {
	d.mu.Lock()
	defer d.mu.Unlock()
	return d.parked[role]
}

// WaitOutgoing reports whether the merger is blocked on the persister.
func (d *Director) WaitOutgoing() bool {
	d.mu.Lock()
	defer d.mu.Unlock()
	return d.waitOutgoing
}

// waitLocked waits until pred holds; false on watchdog.
func (d *Director) waitLocked(pred func() bool) bool {
	if pred() {
		return true
	}
	deadline := time.Now().Add(d.Watchdog)
	t := time.AfterFunc(d.Watchdog+10*time.Millisecond, func() {
		d.mu.Lock()
		d.cond.Broadcast()
		d.mu.Unlock()
	})
	defer t.Stop()
	for !pred() {
		if time.Now().After(deadline) {
			atomic.StoreInt32(&Tainted, 1)
			return false
		}
		d.cond.Wait()
	}
	return true
}

// WaitParked waits until the role is parked at the given point.
func (d *Director) WaitParked(role, point string) bool {
	d.mu.Lock()
	defer d.mu.Unlock()
	return d.waitLocked(func() bool { return d.parked[role] == point })
}

// WaitCross waits until the crossing count of point reaches n.
func (d *Director) WaitCross(point string, n int) bool {
	d.mu.Lock()
	defer d.mu.Unlock()
	return d.waitLocked(func() bool { return d.cross[point] >= n })
}

// Release lets a parked role continue and waits until it has left its
// parking point. It returns false if the role was not parked.
func (d *Director) Release(role string) bool {
	d.mu.Lock()
	defer d.mu.Unlock()
	if d.parked[role] == "" {
		return false
	}
	d.tickets[role]++
	d.cond.Broadcast()
	return true
}

// MergerResult describes how a directed merger cycle ended.
type MergerResult string

// Outcomes of a directed step.
const (
	ResParkedLoop   MergerResult = "loop"         // completed, parked at merger.loop again
	ResParkedMid    MergerResult = "parked"       // parked at an armed intermediate point
	ResWaitOutgoing MergerResult = "waitOutgoing" // blocked on persister (MaxDirty*)
	ResNotAtLoop    MergerResult = "busy"         // merger was not at merger.loop: no-op
	ResWatchdog     MergerResult = "watchdog"
	ResNone         MergerResult = "none" // nothing pending
	ResEnd          MergerResult = "end"
	ResFailed       MergerResult = "failed"
)

// MergerCycle runs one directed merger cycle.  notify must send an
// asynchronous ping of the wanted kind.
func (d *Director) MergerCycle(notify func(), parkAt string) MergerResult {
	d.mu.Lock()
	if d.parked["merger"] != "merger.loop" {
		d.mu.Unlock()
		return ResNotAtLoop
	}
	g := d.gen["merger"]
	if parkAt != "" {
		d.armed[parkAt] = true
		d.once[parkAt] = true
	}
	d.mu.Unlock()

	notify()

	d.mu.Lock()
	defer d.mu.Unlock()
	d.tickets["merger"]++
	d.cond.Broadcast()
	ok := d.waitLocked(func() bool {
		return (d.gen["merger"] > g && d.parked["merger"] != "") || d.waitOutgoing
	})
	if !ok {
		return ResWatchdog
	}
	if d.parked["merger"] == "merger.loop" {
		d.clearOnceLocked("merger")
		return ResParkedLoop
	}
	if d.parked["merger"] != "" {
		return ResParkedMid
	}
	return ResWaitOutgoing
}

// ResumeMerger releases a merger parked at an intermediate point and
// waits for it to reach merger.loop (or block on the persister).
func (d *Director) ResumeMerger() MergerResult {
	d.mu.Lock()
	defer d.mu.Unlock()
	if d.parked["merger"] == "" || d.parked["merger"] == "merger.loop" {
		return ResNone
	}
	g := d.gen["merger"]
	d.tickets["merger"]++
	d.cond.Broadcast()
	ok := d.waitLocked(func() bool {
		return (d.gen["merger"] > g && d.parked["merger"] != "") || d.waitOutgoing
	})
	if !ok {
		return ResWatchdog
	}
	if d.parked["merger"] == "merger.loop" {
		d.clearOnceLocked("merger")
		return ResParkedLoop
	}
	if d.parked["merger"] != "" {
		return ResParkedMid
	}
	return ResWaitOutgoing
}

// PersisterRound releases a persister parked at persister.begin (the
// caller established that a round is pending) and waits for the round
// to end, fail, or park at an armed intermediate point.
func (d *Director) PersisterRound(parkAt string) MergerResult {
	d.mu.Lock()
	defer d.mu.Unlock()
	if !d.waitLocked(func() bool { return d.parked["persister"] == "persister.begin" }) {
		return ResWatchdog
	}
	if parkAt != "" {
		d.armed[parkAt] = true
		d.once[parkAt] = true
	}
	return d.releasePersisterLocked()
}

func (d *Director) releasePersisterLocked() MergerResult {
	g := d.gen["persister"]
	ends := d.cross["persister.end"]
	fails := d.cross["persister.failed"]
	d.tickets["persister"]++
	d.cond.Broadcast()
	ok := d.waitLocked(func() bool {
		return d.cross["persister.end"] > ends || d.cross["persister.failed"] > fails ||
			(d.gen["persister"] > g && d.parked["persister"] != "")
	})
	if !ok {
		return ResWatchdog
	}
	if d.cross["persister.end"] > ends {
		d.clearOnceLocked("persister")
		return ResEnd
	}
	if d.cross["persister.failed"] > fails {
		d.clearOnceLocked("persister")
		return ResFailed
	}
	return ResParkedMid
}

// clearOnceLocked disarms one-shot points of a role that were not reached.
func (d *Director) clearOnceLocked(role string) {
	for p := range d.once {
		if roleOf(p) == role {
			delete(d.once, p)
			delete(d.armed, p)
		}
	}
}

// ResumePersister releases a persister parked at an intermediate point.
func (d *Director) ResumePersister() MergerResult {
	d.mu.Lock()
	defer d.mu.Unlock()
	p := d.parked["persister"]
	if p == "" || p == "persister.begin" {
		return ResNone
	}
	return d.releasePersisterLocked()
}

// WaitMergerSettled waits for the merger to be parked at merger.loop or
// blocked on the persister.
func (d *Director) WaitMergerSettled() bool {
	d.mu.Lock()
	defer d.mu.Unlock()
	return d.waitLocked(func() bool {
		return d.parked["merger"] != "" || d.waitOutgoing
	})
}

// TraceSignature returns the first n crossing points joined, used to
// count distinct interleavings.
func (d *Director) TraceSignature(n int) string {
	d.mu.Lock()
	defer d.mu.Unlock()
	var sb strings.Builder
	for i, e := range d.Trace {
		if i >= n {
			break
		}
		sb.WriteString(e.Point)
		sb.WriteByte(';')
	}
	return sb.String()
}

// Crossings returns a copy of the per-point crossing counters.
func (d *Director) Crossings() map[string]int {
	d.mu.Lock()
	defer d.mu.Unlock()
	out := make(map[string]int, len(d.cross))
	for k, v := range d.cross {
		out[k] = v
	}
	return out
}
