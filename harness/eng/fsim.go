package eng

import (
	"bytes"
	"errors"
	"os"
	"path/filepath"
	"sync"
	"sync/atomic"
	"syscall"
	"time"

	"github.com/couchbase/moss"
)

// FOp is one recorded file operation.
type FOp struct {
	Seq   int
	Kind  string // create | open | write | sync | stat | truncate | close | unlink | mark
	Name  string // base name
	Off   int64  `json:",omitempty"`
	Len   int    `json:",omitempty"`
	Data  []byte `json:"-"` // write payload (kept in memory only)
	Flags int    `json:",omitempty"`
	N     int    `json:",omitempty"` // bytes written
	Err   string `json:",omitempty"`
	Note  string `json:",omitempty"`
	Inj   bool   `json:",omitempty"` // failure was injected
	Phase string `json:",omitempty"` // last store.* hook crossed before the op
}

// Fault addresses operations of one kind by ordinal (0-based) and makes
// Count consecutive ones fail.
type Fault struct {
	Kind    string // create | open | write | sync | stat
	Ordinal int
	Count   int
	Mode    string // err | short (write only)
}

// FS is a recording / fault-injecting file substrate installed through
// StoreOptions.OpenFile.
type FS struct {
	mu       sync.Mutex
	Trace    []FOp
	KeepData bool
	Faults   []Fault
	counts   map[string]int
	Fired    []FOp // injected failures that actually happened
	phase    string
	// SlowSiblings delays writes adjacent (by ordinal) to an injected
	// write failure by this duration.
	SlowSiblings       time.Duration
	ReadOnlyViolations []FOp // successful mutating ops (used by C18)
}

// NewFS returns a substrate.
func NewFS() *FS { return &FS{counts: map[string]int{}} }

// RemoveDelayNS, when non-zero, holds every asynchronous file removal of
// moss back for that long (the hook sits right before os.Remove): programs
// that reopen without waiting for the closed instance's removals use it to
// make sure the removal really races the new instance.
var RemoveDelayNS int64

var currentFS atomic.Value // fsBox

type fsBox struct{ fs *FS }

func init() {
	currentFS.Store(fsBox{})
	moss.VerifSetRemoveHook(func(path string) {
		if b, ok := currentFS.Load().(fsBox); ok && b.fs != nil {
			b.fs.recordUnlink(path)
		}
		if d := atomic.LoadInt64(&RemoveDelayNS); d > 0 {
			time.Sleep(time.Duration(d))
		}
	})
}

// Activate routes unlink notifications to this substrate.
func (fs *FS) Activate() { currentFS.Store(fsBox{fs}) }

// Deactivate stops routing unlink notifications.
func DeactivateFS() { currentFS.Store(fsBox{}) }

// SetPhase records the last store.* hook crossed (called by the director).
func (fs *FS) SetPhase(p string) {
	fs.mu.Lock()
	fs.phase = p
	fs.mu.Unlock()
}

// Mark appends a director marker to the trace.
func (fs *FS) Mark(note string) {
	fs.mu.Lock()
	fs.Trace = append(fs.Trace, FOp{Seq: len(fs.Trace), Kind: "mark", Note: note})
	fs.mu.Unlock()
}

// Counts returns how many operations of each kind have been seen.
// FooterImage returns the payload of the n-th newest footer write recorded so
// far (n = 0: the newest), or nil: a byte-exact image of a footer the store
// has written, for hostile values.
func (fs *FS) FooterImage(n int) []byte {
	fs.mu.Lock()
	defer fs.mu.Unlock()
	// Only footers of the file that holds the newest footer: an image of a
	// footer of an *earlier* file can land at the very offset it was written
	// at in that file, which makes it a perfect forgery (every framing field
	// consistent) - the format has no checksum to tell it from a real footer.
	file := ""
	for i := len(fs.Trace) - 1; i >= 0; i-- {
		op := fs.Trace[i]
		if file != "" && op.Name != file {
			continue
		}
		if op.Kind == "write" && op.Err == "" && len(op.Data) > 2*len(moss.StoreMagicBeg) &&
			bytes.HasPrefix(op.Data, moss.StoreMagicBeg) && bytes.HasPrefix(op.Data[len(moss.StoreMagicBeg):], moss.StoreMagicBeg) {
			file = op.Name
			if n == 0 {
				return append([]byte{}, op.Data...)
			}
			n--
		}
	}
	return nil
}

func (fs *FS) Counts() map[string]int {
	fs.mu.Lock()
	defer fs.mu.Unlock()
	out := map[string]int{}
	for k, v := range fs.counts {
		out[k] = v
	}
	return out
}

// Len returns the trace length.
func (fs *FS) Len() int {
	fs.mu.Lock()
	defer fs.mu.Unlock()
	return len(fs.Trace)
}

// ClearFaults removes the fault plan.
func (fs *FS) ClearFaults() {
	fs.mu.Lock()
	fs.Faults = nil
	fs.mu.Unlock()
}

// FiredCount returns the number of injected failures that happened.
func (fs *FS) FiredCount() int {
	fs.mu.Lock()
	defer fs.mu.Unlock()
	return len(fs.Fired)
}

func (fs *FS) recordUnlink(path string) {
	fs.mu.Lock()
	fs.Trace = append(fs.Trace, FOp{Seq: len(fs.Trace), Kind: "unlink", Name: filepath.Base(path), Phase: fs.phase})
	fs.mu.Unlock()
}

// begin registers an operation, returning its fault decision.
func (fs *FS) begin(kind string) (inject bool, mode string) {
	ord := fs.counts[kind]
	fs.counts[kind] = ord + 1
	for _, f := range fs.Faults {
		if f.Kind == kind && ord >= f.Ordinal && ord < f.Ordinal+f.Count {
			return true, f.Mode
		}
	}
	return false, ""
}

func (fs *FS) add(op FOp) {
	op.Seq = len(fs.Trace)
	op.Phase = fs.phase
	fs.Trace = append(fs.Trace, op)
	if op.Inj {
		fs.Fired = append(fs.Fired, op)
	}
}

// ErrInjectedIO is the error injected for failing file operations.
var ErrInjectedIO = &os.PathError{Op: "verif", Path: "injected", Err: syscall.EIO}

// Open implements moss.OpenFile.
func (fs *FS) Open(name string, flag int, perm os.FileMode) (moss.File, error) {
	kind := "open"
	if flag&os.O_CREATE != 0 {
		kind = "create"
	}
	fs.mu.Lock()
	inj, _ := fs.begin(kind)
	if inj {
		fs.add(FOp{Kind: kind, Name: filepath.Base(name), Flags: flag, Err: "injected", Inj: true})
		fs.mu.Unlock()
		return nil, ErrInjectedIO
	}
	fs.mu.Unlock()
	f, err := os.OpenFile(name, flag, perm)
	fs.mu.Lock()
	op := FOp{Kind: kind, Name: filepath.Base(name), Flags: flag}
	if err != nil {
		op.Err = err.Error()
	}
	fs.add(op)
	fs.mu.Unlock()
	if err != nil {
		return nil, err
	}
	return &SimFile{fs: fs, f: f, name: filepath.Base(name)}, nil
}

// SimFile wraps an *os.File.
type SimFile struct {
	fs   *FS
	f    *os.File
	name string
}

// OsFile lets moss mmap the underlying file.
func (s *SimFile) OsFile() *os.File { return s.f }

// ReadAt implements io.ReaderAt.
func (s *SimFile) ReadAt(p []byte, off int64) (int, error) { return s.f.ReadAt(p, off) }

// WriteAt implements io.WriterAt with recording and fault injection.
func (s *SimFile) WriteAt(p []byte, off int64) (int, error) {
	fs := s.fs
	fs.mu.Lock()
	ord := fs.counts["write"]
	inj, mode := fs.begin("write")
	slow := false
	if !inj && fs.SlowSiblings > 0 {
		// A write issued right next to one that is made to fail (moss writes
		// the two arrays of a segment concurrently) is slowed down, like a
		// slow device would: the failing write reports first and the
		// persistence round may be retried while this one is still in flight.
		for _, f := range fs.Faults {
			if f.Kind == "write" && (ord+1 == f.Ordinal || (ord >= f.Ordinal+f.Count && ord-1 < f.Ordinal+f.Count)) {
				slow = true
			}
		}
	}
	fs.mu.Unlock()
	if slow {
		time.Sleep(fs.SlowSiblings)
	}
	var n int
	var err error
	op := FOp{Kind: "write", Name: s.name, Off: off, Len: len(p)}
	if inj {
		op.Inj = true
		if mode == "short" && len(p) > 1 {
			n, _ = s.f.WriteAt(p[:len(p)/2], off)
			err = &os.PathError{Op: "write", Path: s.name, Err: syscall.ENOSPC}
		} else if mode == "shortnil" && len(p) > 1 {
			// a File implementation (the application's, through OpenFile)
			// that reports a short count without an error value
			n, _ = s.f.WriteAt(p[:len(p)/2], off)
		} else {
			err = ErrInjectedIO
		}
	} else {
		n, err = s.f.WriteAt(p, off)
	}
	op.N = n
	if err != nil {
		op.Err = err.Error()
	}
	fs.mu.Lock()
	if fs.KeepData && n > 0 {
		op.Data = append([]byte{}, p[:n]...)
	}
	fs.add(op)
	fs.mu.Unlock()
	return n, err
}

// Close implements io.Closer.
func (s *SimFile) Close() error {
	err := s.f.Close()
	s.fs.mu.Lock()
	s.fs.add(FOp{Kind: "close", Name: s.name})
	s.fs.mu.Unlock()
	return err
}

// Stat implements moss.File.
func (s *SimFile) Stat() (os.FileInfo, error) {
	fs := s.fs
	fs.mu.Lock()
	inj, _ := fs.begin("stat")
	if inj {
		fs.add(FOp{Kind: "stat", Name: s.name, Err: "injected", Inj: true})
		fs.mu.Unlock()
		return nil, ErrInjectedIO
	}
	fs.mu.Unlock()
	return s.f.Stat()
}

// Sync implements moss.File.
func (s *SimFile) Sync() error {
	fs := s.fs
	fs.mu.Lock()
	inj, _ := fs.begin("sync")
	if inj {
		fs.add(FOp{Kind: "sync", Name: s.name, Err: "injected", Inj: true})
		fs.mu.Unlock()
		return ErrInjectedIO
	}
	fs.mu.Unlock()
	err := s.f.Sync()
	fs.mu.Lock()
	op := FOp{Kind: "sync", Name: s.name}
	if err != nil {
		op.Err = err.Error()
	}
	fs.add(op)
	fs.mu.Unlock()
	return err
}

// Truncate implements moss.File.
func (s *SimFile) Truncate(size int64) error {
	err := s.f.Truncate(size)
	s.fs.mu.Lock()
	op := FOp{Kind: "truncate", Name: s.name, Off: size}
	if err != nil {
		op.Err = err.Error()
	}
	s.fs.add(op)
	s.fs.mu.Unlock()
	return err
}

// IsInjected reports whether err is (or wraps) an injected failure.
func IsInjected(err error) bool {
	if err == nil {
		return false
	}
	var pe *os.PathError
	if errors.As(err, &pe) {
		return pe == ErrInjectedIO || pe.Err == syscall.ENOSPC
	}
	return errors.Is(err, ErrInjected)
}
