// Package eng drives the real moss code: configuration space, hook
// director (steering / delays), step executor and readers.
package eng

import (
	"bytes"
	"fmt"
	"sync/atomic"

	"github.com/couchbase/moss"
)

// Config is one point of the configuration space.
type Config struct {
	Backing string // "none" | "store" | "custom"

	MinMergePercentage  float64 `json:",omitempty"`
	DeferredSort        bool    `json:",omitempty"`
	CachePersisted      bool    `json:",omitempty"`
	MaxPreMergerBatches int     `json:",omitempty"`
	MaxDirtyOps         uint64  `json:",omitempty"`
	MaxDirtyKeyValBytes uint64  `json:",omitempty"`
	IdleMS              int64   `json:",omitempty"`

	Concern              int     `json:",omitempty"` // 0 disable, 1 allow, 2 force
	CompactionPercentage float64 `json:",omitempty"`
	LevelMaxSegments     int     `json:",omitempty"`
	LevelMultiplier      int     `json:",omitempty"`
	BufferPages          int     `json:",omitempty"`
	CompactionSync       bool    `json:",omitempty"`
	SyncAfterBytes       int     `json:",omitempty"`
	NoSync               bool    `json:",omitempty"`
	IndexMaxBytes        int     `json:",omitempty"`
	IndexMinKeyBytes     int     `json:",omitempty"`
	KeepFiles            bool    `json:",omitempty"`

	NoLowerInit bool `json:",omitempty"` // custom backing: LowerLevelInit is nil (the lower level starts empty)

	MergeOp bool `json:",omitempty"` // install the order-sensitive merge operator
	Alloc   bool `json:",omitempty"` // build batches with Alloc* API
}

// Class is a coarse label used as coverage unit.
func (c Config) Class() string {
	s := c.Backing
	if c.Backing == "store" {
		switch c.Concern {
		case 0:
			s += "/disable"
		case 1:
			s += fmt.Sprintf("/allow-l%dm%d", c.LevelMaxSegments, c.LevelMultiplier)
		case 2:
			s += "/force"
		}
		if c.NoSync {
			s += "/nosync"
		}
	}
	if c.NoLowerInit {
		s += "/noinit"
	}
	if c.DeferredSort {
		s += "/defsort"
	}
	if c.CachePersisted {
		s += "/cache"
	}
	if c.MinMergePercentage != 0 {
		s += fmt.Sprintf("/mmp%g", c.MinMergePercentage)
	}
	if c.MaxDirtyOps > 0 || c.MaxDirtyKeyValBytes > 0 {
		s += "/maxdirty"
	}
	if c.Alloc {
		s += "/alloc"
	}
	return s
}

// OrderedMerge is the order-sensitive, nil-revealing merge operator of
// DESIGN.md C08: FullMerge(k, existing, [o...]) folds
// (existing==nil ? "∅" : existing) + "|" + o ; an empty operand on an
// existing value returns that value unchanged (same slice); PartialMerge
// refuses.
type OrderedMerge struct{}

// Name implements moss.MergeOperator.
func (OrderedMerge) Name() string { return "verif-ordered" }

// MergeClear is an operand that folds to the empty value: the key stays
// present with a zero-length, non-nil value (a merge *result* of length zero
// is not a deletion).
var MergeClear = []byte("\x00CLEAR\x00")

// MergePoison is an operand that makes FullMerge fail (return false) while
// MergeFailArmed is non-zero: the application's operator refusing to merge
// is a failure moss has to survive (the merger reports it through OnError
// and retries on its next cycle).
var MergePoison = []byte("\x00POISON\x00")

// MergeFailArmed switches the failing behaviour on (1) and off (0).
var MergeFailArmed int32

// MergeFailures counts the refused FullMerge calls.
var MergeFailures int64

// FullMerge implements moss.MergeOperator.
func (OrderedMerge) FullMerge(key, existing []byte, operands [][]byte) ([]byte, bool) {
	cur := existing
	for _, o := range operands {
		if bytes.Equal(o, MergePoison) && atomic.LoadInt32(&MergeFailArmed) != 0 {
			atomic.AddInt64(&MergeFailures, 1)
			return nil, false
		}
		cur = MergeFold(key, cur, o)
	}
	return cur, true
}

// PartialMerge implements moss.MergeOperator.
func (OrderedMerge) PartialMerge(key, l, r []byte) ([]byte, bool) { return nil, false }

// MergeFold is the model-side fold of one operand.  An empty operand is
// the identity on an existing value and hands that very slice back (like a
// max / first-write-wins operator would): a copying Get of such a key must
// still return bytes that survive closing everything.
func MergeFold(key, existing, operand []byte) []byte {
	if bytes.Equal(operand, MergeClear) {
		return []byte{} // present, with an empty value - not absent
	}
	if len(operand) == 0 && existing != nil {
		return existing
	}
	var out []byte
	if existing == nil {
		out = append(out, "\xe2\x88\x85"...) // "∅"
	} else {
		out = append(out, existing...)
	}
	out = append(out, '|')
	out = append(out, operand...)
	return out
}

// CollectionOptions converts to moss options (callbacks are filled in by
// the executor).
func (c Config) CollectionOptions() moss.CollectionOptions {
	co := moss.DefaultCollectionOptions
	if c.MinMergePercentage != 0 {
		co.MinMergePercentage = c.MinMergePercentage
	}
	co.DeferredSort = c.DeferredSort
	co.CachePersisted = c.CachePersisted
	if c.MaxPreMergerBatches != 0 {
		co.MaxPreMergerBatches = c.MaxPreMergerBatches
	}
	co.MaxDirtyOps = c.MaxDirtyOps
	co.MaxDirtyKeyValBytes = c.MaxDirtyKeyValBytes
	co.MergerIdleRunTimeoutMS = c.IdleMS
	if c.MergeOp {
		co.MergeOperator = OrderedMerge{}
	}
	return co
}

// StoreOptions converts to moss store options.
func (c Config) StoreOptions() moss.StoreOptions {
	so := moss.StoreOptions{
		CollectionOptions:           c.CollectionOptions(),
		CompactionPercentage:        c.CompactionPercentage,
		CompactionLevelMaxSegments:  c.LevelMaxSegments,
		CompactionLevelMultiplier:   c.LevelMultiplier,
		CompactionBufferPages:       c.BufferPages,
		CompactionSync:              c.CompactionSync,
		CompactionSyncAfterBytes:    c.SyncAfterBytes,
		KeepFiles:                   c.KeepFiles,
		SegmentKeysIndexMaxBytes:    c.IndexMaxBytes,
		SegmentKeysIndexMinKeyBytes: c.IndexMinKeyBytes,
	}
	return so
}

// PersistOptions converts to moss persist options.
func (c Config) PersistOptions() moss.StorePersistOptions {
	return moss.StorePersistOptions{
		NoSync:            c.NoSync,
		CompactionConcern: moss.CompactionConcern(c.Concern),
	}
}

// MaxPre returns the effective MaxPreMergerBatches.
func (c Config) MaxPre() int {
	if c.MaxPreMergerBatches <= 0 {
		return moss.DefaultCollectionOptions.MaxPreMergerBatches
	}
	return c.MaxPreMergerBatches
}

// Rng is a splitmix64 generator: small, seedable, serialisable.
type Rng struct{ S uint64 }

// NewRng seeds a generator.
func NewRng(seed uint64) *Rng { return &Rng{S: seed*0x9E3779B97F4A7C15 + 0x1234567} }

// U64 returns the next value.
func (r *Rng) U64() uint64 {
	r.S += 0x9E3779B97F4A7C15
	z := r.S
	z = (z ^ (z >> 30)) * 0xBF58476D1CE4E5B9
	z = (z ^ (z >> 27)) * 0x94D049BB133111EB
	return z ^ (z >> 31)
}

// Intn returns a value in [0,n).
func (r *Rng) Intn(n int) int {
	if n <= 0 {
		return 0
	}
	return int(r.U64() % uint64(n))
}

// Chance returns true with probability num/den.
func (r *Rng) Chance(num, den int) bool { return r.Intn(den) < num }

// Pick picks one of the given ints.
func (r *Rng) Pick(xs ...int) int { return xs[r.Intn(len(xs))] }

// Fork derives an independent generator.
func (r *Rng) Fork() *Rng { return NewRng(r.U64()) }
