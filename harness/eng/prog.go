package eng

import (
	"sync/atomic"
	"bytes"
	"fmt"
	"os"
	"sort"
	"strings"
	"time"

	"github.com/couchbase/moss"

	"mossverif/model"
)

// Step is one step of a steered program.
type Step struct {
	K     string       `json:"k"`
	B     *model.Batch `json:"b,omitempty"`
	A     string       `json:"a,omitempty"` // argument (merge kind, reopen kind, child name, role)
	P     string       `json:"p,omitempty"` // park-at point
	H     int          `json:"h,omitempty"` // handle index
	Par   int          `json:"par,omitempty"`
	Start []byte       `json:"start,omitempty"`
	End   []byte       `json:"end,omitempty"`
	N     int          `json:"n,omitempty"`
}

func (s Step) String() string {
	switch s.K {
	case "batch":
		return "batch[" + DescribeBatch(s.B) + "]"
	default:
		x := s.K
		if s.A != "" {
			x += "(" + s.A + ")"
		}
		if s.P != "" {
			x += "@" + s.P
		}
		if s.K == "snap" || s.K == "ssnap" || s.K == "csnap" || s.K == "iter" || s.K == "closeh" {
			x += fmt.Sprintf("#%d", s.H)
		}
		return x
	}
}

// Program is a replayable steered test case.
type Program struct {
	Prop  string
	Seed  uint64
	Cfg   Config
	Steps []Step
	// RaceReopen: reopen without first waiting for the closed instance's
	// asynchronous file removals (timing dependent by design).
	RaceReopen bool `json:",omitempty"`
	// Quiet: the monitors run only after check / drain / reopen / close
	// steps instead of after every step.  Reading is not side-effect free
	// (it sorts deferred-sort segments, fills the snapshot cache), so some
	// programs must let several steps pass unobserved.
	Quiet bool `json:",omitempty"`
}

// Summary renders the program compactly.
func (p *Program) Summary(max int) string {
	var parts []string
	for i, s := range p.Steps {
		if i >= max {
			parts = append(parts, fmt.Sprintf("...(+%d)", len(p.Steps)-max))
			break
		}
		parts = append(parts, s.String())
	}
	return p.Cfg.Class() + ": " + strings.Join(parts, " ; ")
}

// Violation is one oracle disagreement.
type Violation struct {
	Property string
	Oracle   string
	Class    string
	Disc     string
	Detail   string
	Step     int
}

func (v Violation) String() string {
	return fmt.Sprintf("%s oracle=%s class=%s disc=%s step=%d: %s", v.Property, v.Oracle, v.Class, v.Disc, v.Step, v.Detail)
}

// Oracles selects which monitors run after every step.
type Oracles struct {
	Content bool // C01/C08/C11/C19: snapshot content == reference
	Paths   bool // C10: read paths agree
	Frozen  bool // C02/C15: open handles keep their content
	Reopen  bool // C04: reopen content is a prefix / exact
	Store   bool // C07: store content prefix-monotone; post-compaction shape
	Gauges  bool // C20
	Lower   bool // C13
	Dir     bool // C07/C15: directory and /proc checks at the end
	Durable bool // C06: after every successful round a copy of the directory must reopen to a prefix >= the store's
}

// Handle is an open snapshot / iterator held by the program.
type Handle struct {
	Kind   string // snap | ssnap | csnap | iter
	Snap   moss.Snapshot
	Iter   moss.Iterator
	Frozen *model.Coll // frozen content (for iterators: of the snapshot they were opened on)
	Path   []string
	Start  []byte
	End    []byte
	Pos    int      // iterators: index into Range of the current entry
	Range  []string // iterators: frozen key sequence
	Uni    *Universe
	Born   int // step index
	ParID  int // handle this one was opened from (0 = none)
	// Outlived events
	SawCompaction, SawCollClose, SawStoreClose, SawUnlink bool
	Closed                                                bool
}

// Result is what one program execution produced.
type Result struct {
	Violations   []Violation
	Tolerated    []Violation // known, purely observational violations after which the run continued
	Inconclusive string // non-empty => execution inconclusive (watchdog)
	Steps        int
	Counters     map[string]int64
	Shapes       map[string]int // "<cfg class>|<shape>|<park>" -> count
	Nontrivial   map[string]int // property-specific non-trivial units
}

// Runner executes one program.
type Runner struct {
	E   *Exec
	P   *Program
	O   Oracles
	Res *Result

	handles map[int]*Handle
	step    int

	storeK       int // last identified store prefix
	lowerK       int
	lastFullComp uint64
	lastPartComp uint64
	lastPersists uint64

	// Tolerate, when set, is asked about violations of purely
	// observational oracles (gauges); a tolerated one is recorded and
	// the execution continues.
	Tolerate func(Violation) bool

	// OnRound, when set, is called after every completed persistence round
	// with the prefix the store exposes (-1 if unknown) and the round kind.
	OnRound func(k int, kind string)
	// OnState, when set, is called with the content the store exposes after
	// every completed round, close, reopen and revert.
	OnState func(tree *model.Coll, kind string)

	// StopFaultsAtReopen clears the fault plan when a reopen step starts.
	StopFaultsAtReopen bool
	// CutAfterFault: once an injected fault has fired and one more
	// persistence round has completed successfully, skip to the program's
	// final step (a reopen): damage that only shows when the files are
	// closed must not get the chance to be papered over by a later full
	// compaction.
	CutAfterFault bool
	cutBase       int64

	// KeepOpen: leave everything open after Run (debugging tools).
	KeepOpen bool

	// RaceReopen: do not wait for the closed instance's asynchronous file
	// removals before reopening (C04 directed scenario).
	RaceReopen bool

	retained []retainedVal // C10: copying-Get results checked after close
	baseErrs int
	aborted  bool // the store was closed with Abort: ErrAborted reports are provoked
	lastFired int // injected file faults seen at the last background-error check

	preDirFiles []string
}

// Trace makes the runner print every step (debugging).
var Trace = os.Getenv("VERIF_TRACE") != ""

type retainedVal struct {
	got  []byte
	copy []byte
	desc string
}

// NewRunner prepares a runner; dir is the scratch directory for the store.
func NewRunner(p *Program, o Oracles, dir string) *Runner {
	e := NewExec(p.Cfg, dir, true)
	// a third of the programs open their store in two steps (OpenStore +
	// Store.OpenCollection) instead of OpenStoreCollection
	e.TwoStepOpen = p.Seed%3 == 0
	return &Runner{E: e, P: p, O: o, handles: map[int]*Handle{},
		Res: &Result{Counters: map[string]int64{}, Shapes: map[string]int{}, Nontrivial: map[string]int{}}}
}

func (r *Runner) viol(oracle, class, disc, detail string) {
	v := Violation{Property: r.P.Prop, Oracle: oracle, Class: class, Disc: disc, Detail: detail, Step: r.step}
	if oracle == "gauges" && r.Tolerate != nil && r.Tolerate(v) {
		for _, t := range r.Res.Tolerated {
			if t.Class == class && t.Disc == disc {
				return
			}
		}
		r.Res.Tolerated = append(r.Res.Tolerated, v)
		return
	}
	r.Res.Violations = append(r.Res.Violations, v)
}

func (r *Runner) cnt(name string, n int) { r.Res.Counters[name] += int64(n) }

// Run executes the program; it stops at the first violation.
func (r *Runner) Run() *Result {
	if (r.P.RaceReopen || r.RaceReopen) && r.P.Seed%2 == 0 {
		atomic.StoreInt64(&RemoveDelayNS, int64(20*time.Millisecond))
		defer atomic.StoreInt64(&RemoveDelayNS, 0)
	}
	if !r.KeepOpen {
		defer r.cleanup()
	}
	if err := r.E.Open(); err != nil {
		if strings.HasPrefix(err.Error(), "watchdog") {
			r.Res.Inconclusive = err.Error()
		} else {
			r.viol("open", "open-failed", "initial", err.Error())
		}
		return r.Res
	}
	for i, st := range r.P.Steps {
		r.step = i
		r.Res.Steps++
		if Trace {
			fmt.Printf("STEP %d %s | merger=%q persister=%q waitOut=%v shape=%s n=%d auto=%v\n", i, st, r.E.D.Parked("merger"), r.E.D.Parked("persister"), r.E.D.WaitOutgoing(), r.E.Shape(), r.E.World.N(), r.E.AutoLog)
		}
		if !r.doStep(st) {
			break
		}
		if len(r.Res.Violations) > 0 || r.Res.Inconclusive != "" {
			break
		}
		r.afterStep(st)
		if len(r.Res.Violations) > 0 || r.Res.Inconclusive != "" {
			break
		}
		if r.CutAfterFault && r.E.FS != nil && r.E.FS.FiredCount() > 0 && i < len(r.P.Steps)-1 {
			c := r.Res.Counters
			okRounds := c["rounds.append"] + c["rounds.partial"] + c["rounds.full"]
			if r.cutBase == 0 {
				r.cutBase = okRounds + 1
			} else if okRounds >= r.cutBase {
				last := r.P.Steps[len(r.P.Steps)-1]
				if last.K == "reopen" {
					last = Step{K: "reopen", A: "early"} // no drain: no idle compaction
					r.step = len(r.P.Steps) - 1
					r.Res.Steps++
					r.cnt("cut_after_fault", 1)
					if r.doStep(last) && len(r.Res.Violations) == 0 && r.Res.Inconclusive == "" {
						r.afterStep(last)
					}
				}
				break
			}
		}
	}
	if len(r.Res.Violations) == 0 && r.Res.Inconclusive == "" && !r.KeepOpen {
		r.finish()
	}
	return r.Res
}

// Cleanup closes everything (for callers that used KeepOpen).
func (r *Runner) Cleanup() { r.cleanup() }

func (r *Runner) cleanup() {
	for _, h := range r.handles {
		r.closeHandle(h)
	}
	if r.E.Coll != nil {
		r.E.D.DisarmAll()
		Safe(func() error { return r.E.Coll.Close() })
		r.E.Coll = nil
	}
	if r.E.Store != nil {
		Safe(func() error { return r.E.Store.Close() })
		r.E.Store = nil
	}
	r.E.D.Detach()
}

// closeWithDependents closes a handle.  Iterators and child snapshots
// opened from a collection snapshot are closed before it: the property
// promises them only while their snapshot is open.  Iterators opened on
// a store snapshot hold their own reference on the footer and are left
// open.
func (r *Runner) closeWithDependents(id int) {
	h := r.handles[id]
	if h == nil {
		return
	}
	if h.Kind != "ssnap" {
		for cid, c := range r.handles {
			if c.ParID == id && cid != id {
				r.closeWithDependents(cid)
			}
		}
	}
	r.closeHandle(h)
	delete(r.handles, id)
}

func (r *Runner) closeHandle(h *Handle) {
	if h.Closed {
		return
	}
	h.Closed = true
	Safe(func() error {
		if h.Iter != nil {
			h.Iter.Close()
		}
		if h.Snap != nil {
			h.Snap.Close()
		}
		return nil
	})
}

func (r *Runner) watchdog(what string) bool {
	if d := r.persisterAsleepOnWork(); d != "" {
		r.viol("progress", "persister-waits-although-a-dirty-base-is-pending", "", "watchdog ("+what+"): "+d)
		return false
	}
	r.Res.Inconclusive = "watchdog: " + what
	return false
}

// persisterAsleepOnWork tells a stuck persister from a slow machine when a
// directed wait has run into its watchdog: the persister goroutine sits in
// the condition-variable wait of runPersister itself (not in a hook, where
// the director would be holding it, and not inside a lower-level update),
// unchanged over two dumps, while the collection's own gauges say that a
// dirty base is waiting to be persisted.  Nothing but a new hand-over or
// Close can wake it from there, and the merger cannot hand over while the
// base is occupied - so this is not a matter of time.
func (r *Runner) persisterAsleepOnWork() string {
	e := r.E
	if e.Coll == nil || e.Cfg.Backing == "none" {
		return ""
	}
	find := func() (GInfo, bool) {
		for _, g := range Goroutines() {
			if !strings.Contains(g.Text, "moss.(*collection).runPersister") || strings.Contains(g.Text, "(*Director).at") {
				continue
			}
			lines := strings.Split(g.Text, "\n")
			for i, ln := range lines {
				if strings.HasPrefix(ln, "sync.(*Cond).Wait") {
					// the caller of Wait is two lines further down
					if i+2 < len(lines) && strings.HasPrefix(lines[i+2], "github.com/couchbase/moss.(*collection).runPersister") {
						return g, true
					}
				}
			}
		}
		return GInfo{}, false
	}
	a, ok := find()
	if !ok {
		return ""
	}
	time.Sleep(300 * time.Millisecond)
	b, ok := find()
	if !ok || a.ID != b.ID {
		return ""
	}
	var st *moss.CollectionStats
	Safe(func() error { st, _ = e.Coll.Stats(); return nil })
	if st == nil || (st.CurDirtyBaseOps == 0 && st.CurDirtyBaseSegments == 0) {
		return ""
	}
	return fmt.Sprintf("the persister goroutine is asleep in runPersister's own wait while CurDirtyBaseSegments=%d CurDirtyBaseOps=%d (OnError reports so far: %d, last: %q)",
		st.CurDirtyBaseSegments, st.CurDirtyBaseOps, e.BgErrCount(), e.LastBgErr())
}

func (r *Runner) checkRes(res MergerResult, what string) bool {
	if res == ResWatchdog {
		return r.watchdog(what)
	}
	r.cnt("res."+what+"."+string(res), 1)
	return true
}

func (r *Runner) doStep(st Step) bool {
	e := r.E
	switch st.K {
	case "batch":
		if e.Coll == nil {
			return true
		}
		if st.A == "footerimage" && e.FS != nil && len(st.B.Ops) > 0 && len(st.B.Ops[0].Key) == 0 && st.B.Ops[0].Kind == 'S' {
			// hostile value: a byte-exact image of a footer this store wrote
			// two rounds ago, as the value of the empty key - the first bytes
			// of the segment's buffer, i.e. at a page start in the file
			if img := e.FS.FooterImage(1); img != nil {
				st.B.Ops[0].Val = img
				r.cnt("hostile.footer_image_values", 1)
			}
		}
		if err := e.ExecBatch(st.B); err != nil {
			if strings.HasPrefix(err.Error(), "watchdog") {
				return r.watchdog(err.Error())
			}
			r.viol("exec", "execute-batch-error", "", err.Error())
			return false
		}
		r.cnt("batches", 1)
		if st.B.ChildOnly() {
			r.cnt("batches.childonly", 1)
		}
	case "merge":
		if e.Coll == nil {
			return true
		}
		return r.checkRes(e.MergerCycle(st.A, st.P), "merge")
	case "refuse":
		// The merge operator refuses to merge the operand of st.B during
		// st.N directed merge-all cycles (see GenParams.RefusePct).
		if e.Coll == nil || !e.Cfg.MergeOp {
			return true
		}
		if err := e.ExecBatch(st.B); err != nil {
			if strings.HasPrefix(err.Error(), "watchdog") {
				return r.watchdog(err.Error())
			}
			r.viol("exec", "execute-batch-error", "", err.Error())
			return false
		}
		r.cnt("batches", 1)
		if r.unprovoked() {
			return false
		}
		f0 := atomic.LoadInt64(&MergeFailures)
		atomic.StoreInt32(&MergeFailArmed, 1)
		ok := true
		for i := 0; i < st.N && ok; i++ {
			ok = r.checkRes(e.MergerCycle("mergeAll", ""), "refused-merge")
		}
		atomic.StoreInt32(&MergeFailArmed, 0)
		if !ok {
			return false
		}
		refused := atomic.LoadInt64(&MergeFailures) - f0
		r.cnt("refuse.steps", 1)
		r.cnt("refuse.fullmerge_refused", int(refused))
		if n := e.BgErrCount(); n > r.baseErrs {
			// errors reported while the operator refused are provoked - if
			// they are the operator's refusal and it did refuse
			for _, t := range e.BgErrsSince(r.baseErrs) {
				if refused == 0 || !strings.Contains(t, "merge-operator-full-merge-failed") {
					r.viol("background", "unprovoked-background-error", errClass(t), t)
					return false
				}
			}
			r.cnt("refuse.errors_surfaced", n-r.baseErrs)
			r.baseErrs = n
		}
	case "persist":
		if e.Coll == nil {
			return true
		}
		pre := r.storeCounters()
		res := e.PersisterRound(st.P)
		if !r.checkRes(res, "persist") {
			return false
		}
		if res == ResEnd {
			r.afterRound(pre)
		}
		if res == ResFailed {
			r.afterFailedRound()
		}
	case "resume":
		if e.Coll == nil {
			return true
		}
		if st.A == "merger" {
			return r.checkRes(e.D.ResumeMerger(), "resume-merger")
		}
		pre := r.storeCounters()
		res := e.D.ResumePersister()
		if !r.checkRes(res, "resume-persister") {
			return false
		}
		if res == ResEnd {
			if e.D.Parked("merger") == "" {
				e.D.WaitMergerSettled()
			}
			r.afterRound(pre)
		}
	case "drain":
		if e.Coll == nil {
			return true
		}
		return r.drain()
	case "reopen":
		return r.reopen(st.A)
	case "snap", "ssnap", "csnap", "iter":
		return r.openHandle(st)
	case "closeh":
		r.closeWithDependents(st.H)
	case "iterseek":
		// SeekTo on an open iterator handle (backward or forward); the
		// frozen position is updated by the reference lower-bound.
		h := r.handles[st.H]
		if h == nil || h.Kind != "iter" || h.Closed {
			return true
		}
		var serr error
		if ferr := Safe(func() error { serr = h.Iter.SeekTo(st.Start); return nil }); ferr != nil {
			r.viol("frozen", "fault/iter", r.outlived(h), fmt.Sprintf("iterator #%d SeekTo(%q): %v", st.H, st.Start, ferr))
			return false
		}
		t := st.Start
		if h.Start != nil && bytes.Compare(t, h.Start) < 0 {
			t = h.Start
		}
		h.Pos = sort.Search(len(h.Range), func(i int) bool { return bytes.Compare([]byte(h.Range[i]), t) >= 0 })
		if (h.Pos < len(h.Range)) != (serr == nil) {
			r.viol("frozen", "changed/iter/seek", r.outlived(h), fmt.Sprintf("iterator #%d SeekTo(%q) returned %v, frozen range has %d keys, position %d", st.H, st.Start, serr, len(h.Range), h.Pos))
			return false
		}
		r.cnt("handles.iter_seeks", 1)
	case "closecoll":
		if st.A != "mid" {
			r.resumeAll()
		}
		if e.Coll != nil {
			var err error
			if st.A == "mid" {
				err = e.CloseCollMid()
				if err != nil && strings.HasPrefix(err.Error(), "watchdog") {
					return r.watchdog(err.Error())
				}
			} else {
				err = e.CloseColl()
			}
			if err != nil {
				r.viol("close", "collection-close-error", "", err.Error())
				return false
			}
			for _, h := range r.handles {
				h.SawCollClose = true
			}
		}
	case "closestore":
		if e.Coll != nil && st.A != "first" {
			return true // usual order: collection first
		}
		if e.Store != nil {
			if e.Coll != nil {
				// closed under the collection: a round in flight may end
				// with ErrClosed, which is then a provoked report
				r.aborted = true
			}
			if err := e.CloseStore(); err != nil {
				r.viol("close", "store-close-error", "", err.Error())
				return false
			}
			for _, h := range r.handles {
				h.SawStoreClose = true
			}
		}
	case "check":
	case "revert":
		return r.revert(st.N)
	case "lowerfinal":
		if e.Lower == nil || e.Coll == nil {
			return true
		}
		r.checkLower()
		if len(r.Res.Violations) == 0 && r.lowerK != e.World.N() {
			r.viol("lower", "lower-not-caught-up-after-drain", "", fmt.Sprintf("after draining (6 directed merger+persister iterations) the lower level is at prefix %d of %d", r.lowerK, e.World.N()))
			return false
		}
		r.cnt("lower.final_checks", 1)
	case "gaugesfinal":
		if e.Coll == nil || e.Cfg.Backing == "none" {
			return true
		}
		stt, err := e.Coll.Stats()
		if err == nil && (stt.CurDirtyOps != 0 || stt.CurDirtyBytes != 0 || stt.CurDirtySegments != 0) {
			r.viol("gauges", "gauges-stuck-nonzero", "", fmt.Sprintf("after draining, CurDirtyOps=%d CurDirtyBytes=%d CurDirtySegments=%d", stt.CurDirtyOps, stt.CurDirtyBytes, stt.CurDirtySegments))
			return false
		}
		r.cnt("gauges.final_checks", 1)
		// Bounded catch-up: after the drain (directed merger + persister
		// rounds, no fault injected) the lower level holds every batch -
		// also the ones no gauge could count (creation of an empty child,
		// deletion of a child).
		if e.Cfg.Backing == "store" && e.Store != nil && e.FS == nil {
			var tree *model.Coll
			sn, err := e.Store.Snapshot()
			if err == nil && sn != nil {
				err = Safe(func() error { var err error; tree, err = ReadTree(sn); return err })
				sn.Close()
				if err == nil {
					if m := DiffTree(tree, e.World.Cur(), nil); m != nil {
						where := "top"
						if len(m.Path) > 0 {
							where = "child"
						}
						r.viol("gauges", "drained-but-not-in-lower-level/"+where, m.Kind,
							fmt.Sprintf("after draining (gauges zero) the store's snapshot still differs from the reference content of all %d batches: %s", e.World.N(), m))
						return false
					}
					r.cnt("gauges.final_store_equal", 1)
				}
			}
		}
	default:
		r.viol("harness", "unknown-step", st.K, "")
		return false
	}
	return true
}

// resumeAll lets goroutines parked at intermediate points run to their
// normal parking points.
func (r *Runner) resumeAll() bool {
	e := r.E
	if e.Coll == nil {
		return true
	}
	for i := 0; i < 4; i++ {
		p := e.D.Parked("persister")
		if p != "" && p != "persister.begin" {
			pre := r.storeCounters()
			res := e.D.ResumePersister()
			if res == ResWatchdog {
				return r.watchdog("resume persister")
			}
			if res == ResEnd {
				r.afterRound(pre)
			}
		}
		m := e.D.Parked("merger")
		if m != "" && m != "merger.loop" {
			if res := e.D.ResumeMerger(); res == ResWatchdog {
				return r.watchdog("resume merger")
			}
		}
	}
	if e.D.Parked("merger") == "" && !e.D.WaitOutgoing() {
		if !e.D.WaitMergerSettled() {
			return r.watchdog("merger settle")
		}
	}
	return true
}

func (r *Runner) drain() bool {
	e := r.E
	if !r.resumeAll() {
		return false
	}
	for i := 0; i < 3; i++ {
		res := e.MergerCycle("plain", "")
		if res == ResWatchdog {
			return r.watchdog("drain merge")
		}
		pre := r.storeCounters()
		pr := e.PersisterRound("")
		if pr == ResWatchdog {
			return r.watchdog("drain persist")
		}
		if pr == ResEnd {
			r.afterRound(pre)
			if len(r.Res.Violations) > 0 {
				return false
			}
		}
		if pr == ResFailed {
			i-- // injected failure: the round is retried
			if r.E.BgErrCount() > 400 {
				r.Res.Inconclusive = "retry-limit: persister keeps failing"; return false
			}
		}
		if e.D.Parked("merger") == "" {
			if !e.D.WaitMergerSettled() {
				return r.watchdog("drain settle")
			}
		}
	}
	return true
}

type storeCounters struct {
	persists, full, partial, segs uint64
}

func (r *Runner) storeCounters() storeCounters {
	e := r.E
	if e.Store == nil {
		return storeCounters{}
	}
	ss, err := e.Store.Stats()
	if err != nil {
		return storeCounters{}
	}
	u := func(n string) uint64 { v, _ := ss[n].(uint64); return v }
	return storeCounters{u("total_persists"), u("total_compactions"), u("total_compactions_partial"), u("num_segments")}
}

func (r *Runner) unprovoked() bool {
	if n := r.E.BgErrCount(); n > r.baseErrs {
		r.baseErrs = n
		if r.E.Lower != nil && len(r.E.Lower.FailPlan) > 0 && strings.Contains(r.E.LastBgErr(), ErrInjected.Error()) {
			return false
		}
		if le := r.E.LastBgErr(); r.aborted && (strings.Contains(le, "operation-aborted") || le == moss.ErrClosed.Error()) {
			// the store was closed (with Abort) under a round in flight
			r.cnt("abort.errors_surfaced", 1)
			return false
		}
		if r.E.FS != nil {
			if f := r.E.FS.FiredCount(); f > r.lastFired {
				// provoked by an injected file fault
				r.lastFired = f
				r.cnt("faults.errors_surfaced", 1)
				return false
			}
		}
		r.viol("background", "unprovoked-background-error", errClass(r.E.LastBgErr()), r.E.LastBgErr())
		return true
	}
	return false
}

func errClass(s string) string {
	switch {
	case strings.Contains(s, "fref mismatch"):
		return "fref-mismatch"
	case strings.Contains(s, "segment-corrupted"):
		return "segment-corrupted"
	}
	if len(s) > 40 {
		s = s[:40]
	}
	return s
}

// afterStep runs the enabled monitors.
func (r *Runner) afterStep(st Step) {
	e := r.E
	if r.unprovoked() {
		return
	}
	if r.P.Quiet {
		switch st.K {
		case "check", "drain", "reopen", "closecoll", "closestore", "lowerfinal", "gaugesfinal":
		default:
			return
		}
	}
	park := e.D.Parked("merger") + "+" + e.D.Parked("persister")
	if e.Coll != nil {
		sh := e.Shape()
		r.Res.Shapes[r.P.Cfg.Class()+"|"+sh.String()+"|"+park]++
	}
	if r.O.Content && e.Coll != nil {
		r.checkContent()
	}
	if len(r.Res.Violations) > 0 {
		return
	}
	if r.O.Paths && e.Coll != nil {
		r.checkPaths()
	}
	if len(r.Res.Violations) > 0 {
		return
	}
	if r.O.Frozen {
		r.checkHandles()
	}
	if len(r.Res.Violations) > 0 {
		return
	}
	if r.O.Gauges && e.Coll != nil && e.Cfg.Backing != "none" {
		r.checkGauges(st)
	}
	if len(r.Res.Violations) > 0 {
		return
	}
	if r.O.Lower && e.Lower != nil {
		r.checkLower()
	}
}

// classify describes the placement of a key's history for violation
// classes and coverage.
func (r *Runner) classify(path []string, key string) (last byte, crossStep bool, hadMerge bool) {
	h := r.E.Hist(path, key)
	if len(h) == 0 {
		return 0, false, false
	}
	last = h[len(h)-1].Kind
	for i := range h {
		if h[i].Kind == 'M' {
			hadMerge = true
		}
	}
	if len(h) >= 2 && h[len(h)-1].Epoch != h[len(h)-2].Epoch {
		crossStep = true
	}
	return
}

func (r *Runner) mismatchViol(oracle string, m *Mismatch, extra string) {
	last, cross, hadMerge := r.classify(m.Path, m.Key)
	where := "top"
	if len(m.Path) > 0 {
		where = "child"
	}
	lk := "none"
	if last != 0 {
		lk = string(last)
	}
	class := m.Kind + "/" + where + "/last=" + lk
	if hadMerge {
		class += "/merge"
	}
	if cross {
		class += "/cross"
	}
	if extra == "" && r.E.Partials() > 0 {
		extra = "after-partial-compaction"
	}
	r.viol(oracle, class, extra, m.String()+" shape="+r.E.Shape().String())
}

func (r *Runner) checkContent() {
	e := r.E
	want := e.World.Cur()
	var snap moss.Snapshot
	err := Safe(func() error {
		var err error
		snap, err = e.Coll.Snapshot()
		return err
	})
	if err != nil || snap == nil {
		r.viol("content", "snapshot-error", "", fmt.Sprint(err))
		return
	}
	defer snap.Close()
	var got *model.Coll
	err = Safe(func() error {
		var err error
		got, err = ReadTree(snap)
		return err
	})
	if err != nil {
		r.viol("content", "read-error", errClass(err.Error()), err.Error())
		return
	}
	r.cnt("content.iter_compares", 1)
	r.cnt("content.iter_keys", got.Size())
	if m := DiffTree(got, want, nil); m != nil {
		r.mismatchViol("content-iter", m, "")
		return
	}
	var n int
	var mm *Mismatch
	err = Safe(func() error {
		n, mm = CheckGets(snap, want, e.Uni, moss.ReadOptions{})
		return nil
	})
	r.cnt("content.get_compares", n)
	if err != nil {
		r.viol("content", "get-fault", "", err.Error())
		return
	}
	if mm != nil {
		r.mismatchViol("content-get", mm, "")
		return
	}
	// coverage: keys with cross-step shadowing
	for _, path := range want.Paths() {
		for _, k := range e.Uni.Keys(path) {
			last, cross, hadMerge := r.classify(path, k)
			if cross {
				r.cnt("content.cross_step_keys", 1)
				if last == 'D' {
					r.cnt("content.cross_step_tombstones", 1)
				}
			}
			if hadMerge {
				r.cnt("content.merge_keys", 1)
			}
		}
	}
	if len(want.Ch) > 0 {
		r.cnt("content.with_children", 1)
	}
}

func nilness(b []byte) string {
	if b == nil {
		return "nil"
	}
	return "val"
}

func (r *Runner) checkPaths() {
	e := r.E
	var snap moss.Snapshot
	err := Safe(func() error {
		var err error
		snap, err = e.Coll.Snapshot()
		return err
	})
	if err != nil || snap == nil {
		r.viol("paths", "snapshot-error", "", fmt.Sprint(err))
		return
	}
	defer snap.Close()
	var keys []string
	var vals [][]byte
	err = Safe(func() error {
		var err error
		keys, vals, err = IterAll(snap, nil, nil, moss.IteratorOptions{})
		return err
	})
	if err != nil {
		r.viol("paths", "iter-error", "", err.Error())
		return
	}
	itm := map[string][]byte{}
	for i, k := range keys {
		v := vals[i]
		if v == nil {
			v = []byte{}
		}
		itm[k] = v
	}
	for _, k := range e.Uni.Keys(nil) {
		var cg, cgn, sg, sgn []byte
		err := Safe(func() error {
			var err error
			if cg, err = e.Coll.Get([]byte(k), moss.ReadOptions{}); err != nil {
				return fmt.Errorf("Collection.Get: %v", err)
			}
			if cgn, err = e.Coll.Get([]byte(k), moss.ReadOptions{NoCopyValue: true}); err != nil {
				return fmt.Errorf("Collection.Get(nocopy): %v", err)
			}
			if sg, err = snap.Get([]byte(k), moss.ReadOptions{}); err != nil {
				return fmt.Errorf("Snapshot.Get: %v", err)
			}
			if sgn, err = snap.Get([]byte(k), moss.ReadOptions{NoCopyValue: true}); err != nil {
				return fmt.Errorf("Snapshot.Get(nocopy): %v", err)
			}
			return nil
		})
		if err != nil {
			r.viol("paths", "get-error", errClass(err.Error()), fmt.Sprintf("key=%q %v", k, err))
			return
		}
		iv, inIter := itm[k]
		r.cnt("paths.compares", 4)
		names := []string{"Collection.Get", "Collection.Get(nocopy)", "Snapshot.Get", "Snapshot.Get(nocopy)"}
		got := [][]byte{cg, cgn, sg, sgn}
		ref := sg
		for i, g := range got {
			if (g == nil) != (ref == nil) || !bytes.Equal(g, ref) {
				last, cross, hadMerge := r.classify(nil, k)
				class := fmt.Sprintf("%s-vs-Snapshot.Get/last=%c", names[i], last)
				if hadMerge {
					class += "/merge"
				}
				if cross {
					class += "/cross"
				}
				r.viol("paths", class, "", fmt.Sprintf("key=%q %s=%s Snapshot.Get=%s shape=%s",
					k, names[i], q(g), q(ref), e.Shape()))
				return
			}
		}
		if inIter != (ref != nil) || (inIter && !bytes.Equal(iv, ref)) {
			last, _, _ := r.classify(nil, k)
			r.viol("paths", fmt.Sprintf("iterator-vs-Snapshot.Get/last=%c", last), "",
				fmt.Sprintf("key=%q iterator=%v(%s) Snapshot.Get=%s", k, inIter, q(iv), q(ref)))
			return
		}
		last, cross, _ := r.classify(nil, k)
		if cross && (last == 'D' || last == 'M') {
			r.cnt("paths.cross_del_or_merge", 1)
		}
		if cg != nil && len(r.retained) < 64 {
			r.retained = append(r.retained, retainedVal{got: cg, copy: append([]byte{}, cg...), desc: "Collection.Get " + k})
		}
		if sg != nil && len(r.retained) < 64 {
			r.retained = append(r.retained, retainedVal{got: sg, copy: append([]byte{}, sg...), desc: "Snapshot.Get " + k})
		}
	}
}

// ---------------------------------------------------------------- handles

func (r *Runner) openHandle(st Step) bool {
	e := r.E
	h := &Handle{Kind: st.K, Born: r.step, Uni: NewUniverse()}
	if st.K == "csnap" || st.K == "iter" {
		h.ParID = st.Par
	}
	switch st.K {
	case "snap":
		if e.Coll == nil {
			return true
		}
		s, err := e.Coll.Snapshot()
		if err != nil {
			r.viol("handles", "snapshot-error", "", err.Error())
			return false
		}
		h.Snap = s
		h.Frozen = e.World.Cur().Clone()
	case "ssnap":
		if e.Store == nil {
			return true
		}
		s, err := e.Store.Snapshot()
		if err != nil || s == nil {
			return true
		}
		h.Snap = s
		// Frozen content = whatever the store exposes now; must be a prefix.
		var t *model.Coll
		err = Safe(func() error { var err error; t, err = ReadTree(s); return err })
		if err != nil {
			s.Close()
			r.viol("handles", "store-snapshot-read-error", "", err.Error())
			return false
		}
		h.Frozen = t
	case "csnap":
		par := r.handles[st.Par]
		if par == nil || par.Snap == nil || par.Kind == "iter" {
			return true
		}
		var cs moss.Snapshot
		err := Safe(func() error { var err error; cs, err = par.Snap.ChildCollectionSnapshot(st.A); return err })
		if err != nil {
			r.viol("handles", "child-snapshot-error", "", err.Error())
			return false
		}
		want := par.Frozen.Ch[st.A]
		if cs == nil {
			if want != nil {
				r.viol("handles", "child-snapshot-nil", "", fmt.Sprintf("child %q exists in the frozen content but ChildCollectionSnapshot returned nil", st.A))
				return false
			}
			return true
		}
		if want == nil {
			cs.Close()
			r.viol("handles", "child-snapshot-unexpected", "", fmt.Sprintf("child %q does not exist in the frozen content", st.A))
			return false
		}
		h.Snap = cs
		h.Frozen = want.Clone()
		h.Path = append(append([]string{}, par.Path...), st.A)
	case "iter":
		par := r.handles[st.Par]
		if par == nil || par.Snap == nil || par.Kind == "iter" {
			return true
		}
		var it moss.Iterator
		err := Safe(func() error {
			var err error
			it, err = par.Snap.StartIterator(st.Start, st.End, moss.IteratorOptions{})
			return err
		})
		if err != nil || it == nil {
			r.viol("handles", "iterator-open-error", "", fmt.Sprint(err))
			return false
		}
		h.Iter = it
		h.Frozen = par.Frozen
		h.Start, h.End = st.Start, st.End
		h.Range = par.Frozen.Range(st.Start, st.End)
		for i := 0; i < st.N && h.Pos < len(h.Range); i++ {
			Safe(func() error { return it.Next() })
			h.Pos++
		}
	}
	h.Uni.AddTree(nil, h.Frozen)
	for _, k := range e.Uni.Keys(h.Path) {
		h.Uni.Add(nil, k)
	}
	if old := r.handles[st.H]; old != nil {
		r.closeWithDependents(st.H)
	}
	r.handles[st.H] = h
	r.cnt("handles.opened."+st.K, 1)
	return true
}

func (r *Runner) checkHandles() {
	ids := make([]int, 0, len(r.handles))
	for id := range r.handles {
		ids = append(ids, id)
	}
	sort.Ints(ids)
	for _, id := range ids {
		h := r.handles[id]
		if h.Closed {
			continue
		}
		if h.Kind == "iter" {
			r.checkIterHandle(id, h)
		} else {
			r.checkSnapHandle(id, h)
		}
		if len(r.Res.Violations) > 0 {
			return
		}
	}
}

func (r *Runner) outlived(h *Handle) string {
	var p []string
	if h.SawCompaction {
		p = append(p, "compaction")
	}
	if h.SawUnlink {
		p = append(p, "unlink")
	}
	if h.SawCollClose {
		p = append(p, "collclose")
	}
	if h.SawStoreClose {
		p = append(p, "storeclose")
	}
	if len(p) == 0 {
		return "live"
	}
	return strings.Join(p, "+")
}

func (r *Runner) checkSnapHandle(id int, h *Handle) {
	var got *model.Coll
	err := Safe(func() error { var err error; got, err = ReadTree(h.Snap); return err })
	r.cnt("handles.rereads", 1)
	r.cnt("handles.reread."+h.Kind+"."+r.outlived(h), 1)
	if err != nil {
		cl := "read-error"
		if IsFault(err) {
			cl = "fault"
		}
		r.viol("frozen", cl+"/"+h.Kind, r.outlived(h), fmt.Sprintf("handle #%d (%s, opened at step %d, %s): %v", id, h.Kind, h.Born, r.outlived(h), err))
		return
	}
	if m := DiffTree(got, h.Frozen, nil); m != nil {
		r.viol("frozen", "changed/"+h.Kind+"/"+m.Kind, r.outlived(h), fmt.Sprintf("handle #%d (%s, opened at step %d, %s): %s", id, h.Kind, h.Born, r.outlived(h), m))
		return
	}
	var mm *Mismatch
	var n int
	err = Safe(func() error { n, mm = CheckGets(h.Snap, h.Frozen, h.Uni, moss.ReadOptions{}); return nil })
	r.cnt("handles.get_compares", n)
	if err != nil {
		r.viol("frozen", "fault/"+h.Kind, r.outlived(h), fmt.Sprintf("handle #%d: %v", id, err))
		return
	}
	if mm != nil {
		r.viol("frozen", "changed/"+h.Kind+"/"+mm.Kind, r.outlived(h), fmt.Sprintf("handle #%d (%s, opened at step %d, %s): %s", id, h.Kind, h.Born, r.outlived(h), mm))
	}
}

func (r *Runner) checkIterHandle(id int, h *Handle) {
	// Current must still be the frozen entry at Pos.
	var k, v []byte
	var err error
	ferr := Safe(func() error { k, v, err = h.Iter.Current(); return nil })
	r.cnt("handles.iter_checks", 1)
	r.cnt("handles.reread.iter."+r.outlived(h), 1)
	if ferr != nil {
		r.viol("frozen", "fault/iter", r.outlived(h), fmt.Sprintf("iterator #%d: %v", id, ferr))
		return
	}
	if h.Pos >= len(h.Range) {
		if err != moss.ErrIteratorDone {
			r.viol("frozen", "changed/iter/not-done", r.outlived(h), fmt.Sprintf("iterator #%d should be done, Current=%q,%v", id, k, err))
		}
		return
	}
	wk := h.Range[h.Pos]
	wv := h.Frozen.KV[wk]
	if err != nil || string(k) != wk || !bytes.Equal(v, wv) {
		r.viol("frozen", "changed/iter/current", r.outlived(h), fmt.Sprintf("iterator #%d (%s) at pos %d: got %q=%s err=%v want %q=%s", id, r.outlived(h), h.Pos, k, q(v), err, wk, q(wv)))
		return
	}
}

// finishIter continues an iterator to the end and checks the frozen tail.
func (r *Runner) finishIter(id int, h *Handle) {
	err := Safe(func() error {
		for h.Pos < len(h.Range) {
			k, v, err := h.Iter.Current()
			if err != nil {
				return fmt.Errorf("pos %d: Current err %v, want %q", h.Pos, err, h.Range[h.Pos])
			}
			if string(k) != h.Range[h.Pos] || !bytes.Equal(v, h.Frozen.KV[h.Range[h.Pos]]) {
				return fmt.Errorf("pos %d: got %q=%s want %q", h.Pos, k, q(v), h.Range[h.Pos])
			}
			h.Pos++
			err = h.Iter.Next()
			if h.Pos < len(h.Range) && err != nil {
				return fmt.Errorf("pos %d: Next err %v", h.Pos, err)
			}
			if h.Pos == len(h.Range) && err != moss.ErrIteratorDone {
				return fmt.Errorf("Next at end returned %v", err)
			}
		}
		if _, _, err := h.Iter.Current(); err != moss.ErrIteratorDone {
			return fmt.Errorf("Current after end returned %v", err)
		}
		// SeekTo(first) must yield the whole frozen range again.
		if len(h.Range) > 0 {
			if err := h.Iter.SeekTo([]byte(h.Range[0])); err != nil {
				return fmt.Errorf("SeekTo(first) returned %v", err)
			}
			for i := 0; i < len(h.Range); i++ {
				k, v, err := h.Iter.Current()
				if Trace {
					fmt.Printf("  finishIter #%d %T after-seek i=%d k=%q err=%v want=%q\n", id, h.Iter, i, k, err, h.Range[i])
				}
				if err != nil || string(k) != h.Range[i] || !bytes.Equal(v, h.Frozen.KV[h.Range[i]]) {
					return fmt.Errorf("after SeekTo(first) pos %d: got %q=%s err=%v want %q", i, k, q(v), err, h.Range[i])
				}
				err = h.Iter.Next()
				if i+1 < len(h.Range) && err != nil {
					return fmt.Errorf("after SeekTo(first) Next at %d: %v", i, err)
				}
			}
		}
		return nil
	})
	r.cnt("handles.iter_finished", 1)
	if err != nil {
		cl := "changed/iter/tail"
		if IsFault(err) {
			cl = "fault/iter"
		}
		r.viol("frozen", cl, r.outlived(h), fmt.Sprintf("iterator #%d (%s, start=%q end=%q): %v", id, r.outlived(h), h.Start, h.End, err))
	}
}

// ---------------------------------------------------------------- store

// storePrefix identifies which prefix the store's own snapshot exposes.
func (r *Runner) storePrefix() (k int, tree *model.Coll, ok bool) {
	e := r.E
	s, err := e.Store.Snapshot()
	if err != nil || s == nil {
		r.viol("store", "store-snapshot-error", "", fmt.Sprint(err))
		return 0, nil, false
	}
	defer s.Close()
	var t *model.Coll
	err = Safe(func() error { var err error; t, err = ReadTree(s); return err })
	if err != nil {
		r.viol("store", "store-read-error", errClass(err.Error()), err.Error())
		return 0, nil, false
	}
	ks := e.World.Prefixes(t.Hash())
	if len(ks) == 0 {
		r.notPrefixViol("store", "store", t)
		return 0, t, false
	}
	return ks[len(ks)-1], t, true
}

func (r *Runner) notPrefixViol(oracle, what string, t *model.Coll) {
	e := r.E
	// Describe (and classify) the difference w.r.t. the closest candidate:
	// the prefix state that differs from the observed content in the fewest
	// entries (the newest one among equals).
	best, bestN := e.World.N(), -1
	for k := e.World.N(); k >= 0; k-- {
		if n := DiffCount(t, e.World.Ref[k]); bestN < 0 || n < bestN {
			best, bestN = k, n
		}
	}
	m := DiffTree(t, e.World.Ref[best], nil)
	detail := what + " content is not the reference content after any prefix of the batches"
	class := "not-a-prefix"
	if m != nil {
		detail += fmt.Sprintf("; closest is prefix %d of %d (%d entries differ), first: %s", best, e.World.N(), bestN, m.String())
		where := "top"
		if len(m.Path) > 0 {
			where = "child"
		}
		class += "/" + m.Kind + "/" + where
		last, cross, hadMerge := r.classify(m.Path, m.Key)
		if last != 0 {
			class += "/last=" + string(last)
		}
		if hadMerge {
			class += "/merge"
		}
		if cross {
			class += "/cross"
		}
	}
	extra := ""
	if r.E.Partials() > 0 {
		extra = "after-partial-compaction"
	}
	r.viol(oracle, class, extra, detail)
}

// afterRound runs after every completed persistence round.
func (r *Runner) afterRound(pre storeCounters) {
	e := r.E
	r.cnt("rounds", 1)
	if e.Store == nil {
		return
	}
	post := r.storeCounters()
	kind := "noop"
	switch {
	case post.full > pre.full:
		kind = "full"
	case post.partial > pre.partial:
		kind = "partial"
	case post.persists > pre.persists:
		kind = "append"
	}
	r.cnt("rounds."+kind, 1)
	r.Res.Nontrivial[fmt.Sprintf("round:%d>%s>%d", pre.segs, kind, post.segs)]++
	if kind == "full" || kind == "partial" {
		for _, h := range r.handles {
			h.SawCompaction = true
			if kind == "full" {
				h.SawUnlink = true
			}
		}
	}
	if !r.O.Store {
		if r.OnRound != nil {
			r.OnRound(-1, kind)
		}
		return
	}
	k, tree, ok := r.storePrefix()
	if !ok {
		return
	}
	if r.OnRound != nil {
		r.OnRound(k, kind)
	}
	if r.OnState != nil {
		r.OnState(tree, kind)
	}
	if k < r.storeK {
		r.viol("store", "store-went-backwards", kind, fmt.Sprintf("store exposed prefix %d after prefix %d (round kind %s)", k, r.storeK, kind))
		return
	}
	r.storeK = k
	r.cnt("store.prefix_checks", 1)
	if r.O.Durable {
		r.checkDurable(k)
		if len(r.Res.Violations) > 0 {
			return
		}
	}
	if len(tree.Ch) > 0 && (kind == "full" || kind == "partial") {
		r.cnt("store.compactions_with_children", 1)
	}
	if kind == "full" {
		r.checkFullyCompacted()
	}
}

// afterFailedRound runs after a persistence round that reported an error:
// the store must keep exposing a prefix state no older than before.
func (r *Runner) afterFailedRound() {
	e := r.E
	r.cnt("rounds.failed", 1)
	if e.Store == nil || !r.O.Store {
		return
	}
	k, _, ok := r.storePrefix()
	if !ok {
		return
	}
	if k < r.storeK {
		r.viol("store", "store-went-backwards", "after-failed-round", fmt.Sprintf("after a failed round the store exposes prefix %d, before it exposed %d", k, r.storeK))
		return
	}
	r.storeK = k
	r.cnt("store.prefix_checks_after_failure", 1)
}

// checkDurable copies the store directory and reopens the copy: it must
// open and show a prefix state at least as new as what the store exposes.
func (r *Runner) checkDurable(k int) {
	e := r.E
	cp := e.Dir + ".copy"
	os.RemoveAll(cp)
	os.MkdirAll(cp, 0o755)
	defer os.RemoveAll(cp)
	what := "a copy of the directory"
	if e.FS != nil && e.FS.KeepData && !e.Cfg.NoSync {
		// Power-loss view: only what successful Syncs made durable (the
		// round reported success with syncing enabled, so its footer and
		// segments must be part of it).
		e.FS.mu.Lock()
		trace := append([]FOp{}, e.FS.Trace...)
		e.FS.mu.Unlock()
		what = "the durable image (content as of each file's last successful Sync)"
		for n, c := range BuildImage(trace, CrashImage{Point: len(trace) - 1, Torn: -1, Kind: "none"}, false) {
			os.WriteFile(cp+"/"+n, c, 0o600)
		}
		r.cnt("durable.sync_images", 1)
	} else {
		for _, f := range DirFiles(e.Dir) {
			b, err := os.ReadFile(e.Dir + "/" + f)
			if err != nil {
				continue // removed concurrently
			}
			os.WriteFile(cp+"/"+f, b, 0o600)
		}
	}
	so := e.Cfg.StoreOptions()
	so.CollectionOptions = e.Cfg.CollectionOptions()
	so.CollectionOptions.ReadOnly = true
	var t *model.Coll
	err := Safe(func() error {
		st, err := moss.OpenStore(cp, so)
		if err != nil {
			return err
		}
		defer st.Close()
		s, err := st.Snapshot()
		if err != nil {
			return err
		}
		defer s.Close()
		t, err = ReadTree(s)
		return err
	})
	r.cnt("durable.copies_reopened", 1)
	if err != nil {
		r.viol("durable", "copy-not-openable", errClass(err.Error()), fmt.Sprintf("after a round that reported success (store at prefix %d) %s cannot be opened/read: %v", k, what, err))
		return
	}
	ks := e.World.Prefixes(t.Hash())
	if len(ks) == 0 {
		r.notPrefixViol("durable", what, t)
		return
	}
	if ks[len(ks)-1] < k {
		r.viol("durable", "copy-older-than-store", "", fmt.Sprintf("the store exposes prefix %d after a round that reported success, but %s reopens to prefix %d", k, what, ks[len(ks)-1]))
	}
}

// checkFullyCompacted asserts the post-full-compaction shape.
func (r *Runner) checkFullyCompacted() {
	e := r.E
	s, err := e.Store.Snapshot()
	if err != nil || s == nil {
		return
	}
	defer s.Close()
	if n := e.StoreStat("num_segments"); n > 1 {
		r.viol("compaction", "segments-after-full", "", fmt.Sprintf("num_segments=%d after a full compaction", n))
		return
	}
	var rec func(sn moss.Snapshot, path []string) error
	rec = func(sn moss.Snapshot, path []string) error {
		it, err := sn.StartIterator(nil, nil, moss.IteratorOptions{IncludeDeletions: true})
		if err != nil || it == nil {
			return fmt.Errorf("iterator: %v", err)
		}
		var prev []byte
		first := true
		for {
			ex, k, _, err := it.CurrentEx()
			if err == moss.ErrIteratorDone {
				break
			}
			if err != nil {
				it.Close()
				return err
			}
			if ex.Operation == moss.OperationDel {
				it.Close()
				return fmt.Errorf("deletion marker for %q at %q after full compaction", k, strings.Join(path, "/"))
			}
			if ex.Operation == moss.OperationMerge {
				it.Close()
				return fmt.Errorf("unresolved merge for %q at %q after full compaction", k, strings.Join(path, "/"))
			}
			if !first && bytes.Compare(prev, k) >= 0 {
				it.Close()
				return fmt.Errorf("key %q repeated / out of order after full compaction", k)
			}
			first = false
			prev = append(prev[:0], k...)
			if it.Next() != nil {
				break
			}
		}
		it.Close()
		it2, err := sn.StartIterator(nil, nil, moss.IteratorOptions{IncludeDeletions: true, MinSegmentLevel: 1})
		if err == nil && it2 != nil {
			_, k, _, err := it2.CurrentEx()
			it2.Close()
			if err != moss.ErrIteratorDone {
				return fmt.Errorf("more than one segment at %q after full compaction (level-1 iterator yields %q)", strings.Join(path, "/"), k)
			}
		}
		names, _ := sn.ChildCollectionNames()
		sort.Strings(names)
		for _, n := range names {
			cs, err := sn.ChildCollectionSnapshot(n)
			if err != nil || cs == nil {
				continue
			}
			err = rec(cs, append(append([]string{}, path...), n))
			cs.Close()
			if err != nil {
				return err
			}
		}
		return nil
	}
	err = Safe(func() error { return rec(s, nil) })
	r.cnt("compaction.full_checked", 1)
	if err != nil {
		r.viol("compaction", "garbage-after-full", "", err.Error())
	}
}

// ---------------------------------------------------------------- gauges

func (r *Runner) checkGauges(st Step) {
	e := r.E
	stt, err := e.Coll.Stats()
	if err != nil {
		return
	}
	r.cnt("gauges.samples", 1)
	if stt.CurDirtyOps != 0 || stt.CurDirtyBytes != 0 || stt.CurDirtySegments != 0 {
		return
	}
	if e.World.N() == 0 {
		return
	}
	r.cnt("gauges.zero_samples", 1)
	r.Res.Nontrivial["zero|"+r.P.Cfg.Class()+"|"+e.Shape().String()+"|"+e.D.Parked("merger")+"+"+e.D.Parked("persister")]++
	lastChildOnly := false
	for i := r.step; i >= 0; i-- {
		if r.P.Steps[i].K == "batch" {
			lastChildOnly = r.P.Steps[i].B.ChildOnly()
			break
		}
	}
	if lastChildOnly {
		r.cnt("gauges.zero_after_childonly", 1)
	}
	var tree *model.Coll
	switch e.Cfg.Backing {
	case "store":
		s, err := e.Store.Snapshot()
		if err != nil || s == nil {
			return
		}
		err = Safe(func() error { var err error; tree, err = ReadTree(s); return err })
		s.Close()
		if err != nil {
			r.viol("gauges", "store-read-error", "", err.Error())
			return
		}
	case "custom":
		tree = model.New()
		for k, v := range e.Lower.Snapshot().kv {
			if v == nil {
				v = []byte{}
			}
			tree.KV[k] = v
		}
	}
	want := e.World.Cur()
	if e.Cfg.Backing == "custom" {
		// The custom lower level is top-level only.
		w2 := model.New()
		w2.KV = want.KV
		want = w2
	}
	if m := DiffTree(tree, want, nil); m != nil {
		where := "top"
		if len(m.Path) > 0 {
			where = "child"
		}
		co := "mixed"
		if lastChildOnly {
			co = "after-child-only-batch"
		}
		// What is it that the lower level lacks?  If the reference content
		// follows from the lower level's by deleting child collections and
		// creating empty ones alone, only structural changes are pending
		// (no operation, byte or segment exists that a gauge could count);
		// anything else is data the gauges should have counted.
		if e.Cfg.Backing == "store" {
			if structureOnlyDiff(tree, want) {
				co = "pending-structure-only/" + co
			} else {
				co = "pending-data/" + co
			}
		}
		r.viol("gauges", "zero-gauges-but-not-persisted/"+where, co,
			fmt.Sprintf("Stats shows CurDirtyOps=CurDirtyBytes=CurDirtySegments=0 with n=%d batches, but lower level differs: %s", e.World.N(), m))
	}
}

// hollow reports whether a collection holds no key anywhere in its subtree.
func hollow(c *model.Coll) bool {
	if len(c.KV) > 0 {
		return false
	}
	for _, ch := range c.Ch {
		if !hollow(ch) {
			return false
		}
	}
	return true
}

// structureOnlyDiff reports whether want follows from have by deleting child
// collections and creating (or recreating) empty ones, nothing else.
func structureOnlyDiff(have, want *model.Coll) bool {
	if len(have.KV) != len(want.KV) {
		return false
	}
	for k, v := range want.KV {
		hv, ok := have.KV[k]
		if !ok || !bytes.Equal(hv, v) {
			return false
		}
	}
	for n, wc := range want.Ch {
		if hollow(wc) {
			continue // created, or deleted and recreated, empty
		}
		hc, ok := have.Ch[n]
		if !ok || !structureOnlyDiff(hc, wc) {
			return false
		}
	}
	return true // children only in have: deletion pending
}

// ---------------------------------------------------------------- lower

func (r *Runner) checkLower() {
	e := r.E
	snap := e.Lower.Snapshot()
	t := model.New()
	for k, v := range snap.kv {
		if v == nil {
			v = []byte{}
		}
		t.KV[k] = v
	}
	// Compare against the top-level projection of each prefix.
	k := -1
	for i := e.World.N(); i >= 0; i-- {
		w := e.World.Ref[i]
		if len(w.KV) != len(t.KV) {
			continue
		}
		same := true
		for kk, vv := range w.KV {
			if gv, ok := t.KV[kk]; !ok || !bytes.Equal(gv, vv) {
				same = false
				break
			}
		}
		if same {
			k = i
			break
		}
	}
	r.cnt("lower.checks", 1)
	if k < 0 {
		w2 := model.New()
		w2.KV = e.World.Cur().KV
		m := DiffTree(t, w2, nil)
		r.viol("lower", "lower-not-a-prefix", "", fmt.Sprintf("lower-level content is not the reference content of any prefix; vs current: %v", m))
		return
	}
	if k < r.lowerK {
		r.viol("lower", "lower-went-backwards", "", fmt.Sprintf("lower level at prefix %d after %d", k, r.lowerK))
		return
	}
	if k != r.lowerK {
		r.Res.Nontrivial[fmt.Sprintf("lowergap:%d", k-r.lowerK)]++
	}
	r.lowerK = k
}

// ---------------------------------------------------------------- reopen

func (r *Runner) reopen(kind string) bool {
	e := r.E
	if e.Cfg.Backing != "store" {
		return true
	}
	e.Epoch++
	if e.FS != nil && r.StopFaultsAtReopen {
		// "once operations succeed again": no injected failure from here on.
		e.FS.ClearFaults()
	}
	if e.Coll != nil {
		switch kind {
		case "caughtup":
			if !r.drain() {
				return false
			}
			if len(r.Res.Violations) > 0 {
				return false
			}
			if err := e.CloseColl(); err != nil {
				r.viol("close", "collection-close-error", "", err.Error())
				return false
			}
		case "mid":
			if err := e.CloseCollMid(); err != nil {
				if strings.HasPrefix(err.Error(), "watchdog") {
					return r.watchdog(err.Error())
				}
				r.viol("close", "collection-close-error", "", err.Error())
				return false
			}
		case "abort":
			// Store.CloseEx(Abort) while a persistence / compaction round is
			// parked in mid-flight, then Collection.Close (gates open once
			// Close has signalled stop): the round in flight may be given up
			// (ErrAborted through OnError), but whatever a reopen finds must
			// still be a prefix not older than what the store had exposed.
			r.aborted = true
			if err := e.AbortStore(); err != nil {
				r.viol("close", "store-close-error", "abort", err.Error())
				return false
			}
			for _, h := range r.handles {
				h.SawStoreClose = true
			}
			if err := e.CloseCollMid(); err != nil {
				if strings.HasPrefix(err.Error(), "watchdog") {
					return r.watchdog(err.Error())
				}
				r.viol("close", "collection-close-error", "", err.Error())
				return false
			}
		default: // early
			if err := e.CloseColl(); err != nil {
				r.viol("close", "collection-close-error", "", err.Error())
				return false
			}
		}
		for _, h := range r.handles {
			h.SawCollClose = true
		}
	}
	if e.Store != nil && r.O.Store && e.FS == nil && r.P.Seed%4 == 1 && !e.ReadOnly {
		// With the collection closed nobody else persists: a direct
		// Store.Persist(nil, CompactionForce) - documented for single-threaded
		// use, "the higher snapshot may be nil" - compacts what the store
		// holds and must not change a byte of its content.
		if _, before, ok := r.storePrefix(); ok {
			var perr error
			ferr := Safe(func() error {
				sn, err := e.Store.Persist(nil, moss.StorePersistOptions{CompactionConcern: moss.CompactionForce})
				if sn != nil {
					sn.Close()
				}
				perr = err
				return nil
			})
			if ferr != nil {
				r.viol("compaction", "direct-compaction-fault", "", ferr.Error())
				return false
			}
			if perr != nil {
				r.viol("compaction", "direct-compaction-error", errClass(perr.Error()), "Store.Persist(nil, CompactionForce) after Collection.Close: "+perr.Error())
				return false
			}
			r.cnt("compaction.direct", 1)
			if _, after, ok := r.storePrefix(); !ok {
				return false
			} else if m := DiffTree(after, before, nil); m != nil {
				where := "top"
				if len(m.Path) > 0 {
					where = "child"
				}
				r.viol("compaction", "direct-compaction-changed-content/"+where, m.Kind,
					"Store.Persist(nil, CompactionForce) after Collection.Close changed the store's content: "+m.String())
				return false
			}
		} else {
			return false
		}
	}
	if e.Store != nil {
		if err := e.CloseStore(); err != nil {
			r.viol("close", "store-close-error", "", err.Error())
			return false
		}
		for _, h := range r.handles {
			h.SawStoreClose = true
		}
	}
	// An error surfaced by the final round during Close is checked here.
	if r.unprovoked() {
		return false
	}
	// File removal is asynchronous: let pending unlinks of the closed
	// instance finish so that the reopen sees a settled directory.
	if !r.RaceReopen && !r.P.RaceReopen && !WaitQuiescent(e.D.Watchdog) {
		return r.watchdog("pending file removals before reopen")
	}
	if err := e.Open(); err != nil {
		if strings.HasPrefix(err.Error(), "watchdog") {
			return r.watchdog(err.Error())
		}
		disc := kind
		if kind == "abort" && (r.RaceReopen || r.P.RaceReopen) && strings.Contains(err.Error(), "could not open/parse any file") {
			// reopened without waiting for the closed instance's asynchronous
			// file removals: the file abandoned by the aborted round was
			// still listed, or vanished while it was being opened
			disc = "abort/racing-removal-of-abandoned-file"
		}
		r.viol("reopen", "reopen-failed", disc, err.Error())
		return false
	}
	r.cnt("reopens."+kind, 1)
	r.aborted = false
	// Identify the reopened prefix.
	var snap moss.Snapshot
	err := Safe(func() error { var err error; snap, err = e.Coll.Snapshot(); return err })
	if err != nil || snap == nil {
		r.viol("reopen", "snapshot-error", "", fmt.Sprint(err))
		return false
	}
	var t *model.Coll
	err = Safe(func() error { var err error; t, err = ReadTree(snap); return err })
	snap.Close()
	if err != nil {
		r.viol("reopen", "read-error", errClass(err.Error()), err.Error())
		return false
	}
	n := e.World.N()
	ks := e.World.Prefixes(t.Hash())
	if len(ks) == 0 {
		if r.O.Reopen || r.O.Content {
			r.notPrefixViol("reopen", "reopened("+kind+")", t)
			return false
		}
		return false
	}
	k := ks[len(ks)-1]
	if kind == "caughtup" && k != n {
		m := DiffTree(t, e.World.Cur(), nil)
		where := "top"
		if m != nil && len(m.Path) > 0 {
			where = "child"
		}
		r.viol("reopen", "caughtup-lost-batches/"+where, "", fmt.Sprintf("after a caught-up close the reopened content is prefix %d of %d: %v", k, n, m))
		return false
	}
	if k < r.storeK {
		r.viol("reopen", "reopen-older-than-store", kind, fmt.Sprintf("reopened prefix %d but the store had exposed prefix %d", k, r.storeK))
		return false
	}
	r.Res.Nontrivial[fmt.Sprintf("reopen:%s:gap%d", kind, n-k)]++
	if r.OnState != nil {
		r.OnState(t, "reopen")
	}
	e.World.TruncateTo(k)
	r.storeK = k
	r.lowerK = 0
	return true
}

// revert closes the collection, walks depth steps back in the store's
// history, reverts to that snapshot and reopens.
func (r *Runner) revert(depth int) bool {
	e := r.E
	if e.Cfg.Backing != "store" || e.Coll == nil || e.Store == nil {
		return true
	}
	if !r.resumeAll() {
		return false
	}
	e.Epoch++
	if err := e.CloseColl(); err != nil {
		r.viol("close", "collection-close-error", "", err.Error())
		return false
	}
	if r.unprovoked() {
		return false
	}
	k, tree, ok := r.storePrefix()
	if !ok {
		return false
	}
	if k < r.storeK {
		r.viol("store", "store-went-backwards", "close", fmt.Sprintf("store exposed prefix %d after prefix %d", k, r.storeK))
		return false
	}
	r.storeK = k
	if r.OnState != nil {
		r.OnState(tree, "close")
	}
	target, err := e.Store.Snapshot()
	if err != nil || target == nil {
		return true
	}
	walked := 0
	for i := 0; i < depth; i++ {
		var prev moss.Snapshot
		perr := Safe(func() error { var err error; prev, err = e.Store.SnapshotPrevious(target); return err })
		if perr != nil {
			target.Close()
			r.viol("history", "previous-error", "", perr.Error())
			return false
		}
		if prev == nil {
			break
		}
		target.Close()
		target = prev
		walked++
	}
	var tt *model.Coll
	rerr := Safe(func() error { var err error; tt, err = ReadTree(target); return err })
	if rerr != nil {
		target.Close()
		r.viol("history", "previous-read-error", "", rerr.Error())
		return false
	}
	ks := e.World.Prefixes(tt.Hash())
	if len(ks) == 0 {
		target.Close()
		r.notPrefixViol("history", fmt.Sprintf("previous snapshot at depth %d", walked), tt)
		return false
	}
	kt := ks[len(ks)-1]
	var verr error
	ferr := Safe(func() error { verr = e.Store.SnapshotRevert(target); return nil })
	target.Close()
	if ferr != nil {
		r.viol("history", "revert-fault", "", ferr.Error())
		return false
	}
	if verr != nil {
		if strings.Contains(verr.Error(), "snapshot too old") || strings.Contains(verr.Error(), "slocs <= 0") {
			// documented: cannot revert across a full compaction; a completely
			// empty snapshot has no file to revert in
			r.cnt("reverts.refused", 1)
		} else {
			r.viol("history", "revert-error", "", verr.Error())
			return false
		}
	} else {
		r.cnt("reverts", 1)
		r.Res.Nontrivial[fmt.Sprintf("revert:depth%d", walked)]++
		k2, t2, ok := r.storePrefix()
		if !ok {
			return false
		}
		if k2 != kt {
			r.viol("history", "revert-wrong-content", "", fmt.Sprintf("after SnapshotRevert to prefix %d the store exposes prefix %d", kt, k2))
			return false
		}
		e.World.TruncateTo(kt)
		r.storeK = kt
		if r.OnState != nil {
			r.OnState(t2, "revert")
		}
	}
	if err := e.CloseStore(); err != nil {
		r.viol("close", "store-close-error", "", err.Error())
		return false
	}
	if !WaitQuiescent(e.D.Watchdog) {
		return r.watchdog("pending file removals before reopen")
	}
	if err := e.Open(); err != nil {
		if strings.HasPrefix(err.Error(), "watchdog") {
			return r.watchdog(err.Error())
		}
		r.viol("reopen", "reopen-failed", "after-revert", err.Error())
		return false
	}
	var snap moss.Snapshot
	if err := Safe(func() error { var err error; snap, err = e.Coll.Snapshot(); return err }); err != nil || snap == nil {
		r.viol("reopen", "snapshot-error", "", fmt.Sprint(err))
		return false
	}
	var t *model.Coll
	err = Safe(func() error { var err error; t, err = ReadTree(snap); return err })
	snap.Close()
	if err != nil {
		r.viol("reopen", "read-error", errClass(err.Error()), err.Error())
		return false
	}
	ks = e.World.Prefixes(t.Hash())
	if len(ks) == 0 || ks[len(ks)-1] != r.storeK {
		r.viol("reopen", "reopen-after-revert-differs", "", fmt.Sprintf("reopened content after the revert is not prefix %d (got %v)", r.storeK, ks))
		return false
	}
	e.World.TruncateTo(r.storeK)
	if r.OnState != nil {
		r.OnState(t, "reopen")
	}
	r.lowerK = 0
	return true
}

// ---------------------------------------------------------------- finish

func (r *Runner) finish() {
	e := r.E
	r.step = len(r.P.Steps)
	// Continue every open iterator to its end, then close all handles.
	if r.O.Frozen {
		ids := make([]int, 0, len(r.handles))
		for id := range r.handles {
			ids = append(ids, id)
		}
		sort.Ints(ids)
		for _, id := range ids {
			h := r.handles[id]
			if h.Kind == "iter" && !h.Closed {
				r.finishIter(id, h)
				if len(r.Res.Violations) > 0 {
					return
				}
			}
		}
	}
	if !r.resumeAll() {
		return
	}
	for len(r.handles) > 0 {
		for id := range r.handles {
			r.closeWithDependents(id)
			break
		}
	}
	if e.Coll != nil {
		if err := e.CloseColl(); err != nil {
			r.viol("close", "collection-close-error", "", err.Error())
			return
		}
	}
	if e.Store != nil {
		if err := e.CloseStore(); err != nil {
			r.viol("close", "store-close-error", "", err.Error())
			return
		}
	}
	if r.unprovoked() {
		return
	}
	for _, rv := range r.retained {
		r.cnt("paths.retained_checked", 1)
		var same bool
		err := Safe(func() error { same = bytes.Equal(rv.got, rv.copy); return nil })
		if err != nil || !same {
			r.viol("paths", "retained-value-changed", "", fmt.Sprintf("%s: value from a copying Get changed or faulted after close: %v", rv.desc, err))
			return
		}
	}
	if r.O.Dir && e.Cfg.Backing == "store" {
		r.checkReleased()
	}
}

// checkReleased asserts that after everything is closed no descriptor or
// mapping of the store directory remains and the directory holds exactly
// the current data file.
func (r *Runner) checkReleased() {
	e := r.E
	if !WaitQuiescent(e.D.Watchdog) {
		r.Res.Inconclusive = "watchdog: process not quiescent after close"
		return
	}
	fds, maps := ProcRefs(e.Dir)
	r.cnt("released.checks", 1)
	if len(fds) > 0 {
		r.viol("released", "fd-leak", r.childDisc(), fmt.Sprintf("open descriptors after closing everything: %v", fds))
		return
	}
	if len(maps) > 0 {
		r.viol("released", "mmap-leak", r.childDisc(), fmt.Sprintf("mappings after closing everything: %v", maps))
		return
	}
	if !e.Cfg.KeepFiles {
		files := DirFiles(e.Dir)
		var data []string
		for _, f := range files {
			if strings.HasPrefix(f, "data-") && strings.HasSuffix(f, ".moss") {
				data = append(data, f)
			}
		}
		if len(data) > 1 {
			r.viol("released", "stale-data-files", r.childDisc(), fmt.Sprintf("directory holds %v after closing everything", data))
		}
	}
}

func (r *Runner) childDisc() string {
	for _, w := range r.E.World.Ref {
		if len(w.Ch) > 0 {
			return "children"
		}
	}
	// Also count children that were lost by truncation: look at the program.
	for _, s := range r.P.Steps {
		if s.K == "batch" && (len(s.B.Children) > 0 || len(s.B.DelChildren) > 0) {
			return "children"
		}
	}
	return "nochildren"
}

// RemoveAll removes a scratch directory.
func RemoveAll(dir string) { os.RemoveAll(dir) }
