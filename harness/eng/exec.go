package eng

import (
	"fmt"
	"os"
	"strings"
	"sync"
	"time"

	"github.com/couchbase/moss"

	"mossverif/model"
)

// Exec is one live moss instance under test together with its reference
// model.
type Exec struct {
	Cfg     Config
	Dir     string // store directory (Backing == "store")
	D       *Director
	Steered bool
	FS      *FS // optional file substrate

	partialsEver uint64 // partial compactions of store instances closed so far

	topBatches int // non-empty batches executed since the merger's last ingest
	ingestSeen int // merger.ingested crossings at the last look

	Store *moss.Store
	Coll  moss.Collection
	Lower *Lower

	World *model.World
	Uni   *Universe

	ReadOnly bool
	// TwoStepOpen: OpenStore + Store.OpenCollection instead of OpenStoreCollection.
	TwoStepOpen bool

	errMu   sync.Mutex
	BgErrs  []string // errors reported through OnError
	Events  map[moss.EventKind]int
	AutoLog []string // steps inserted automatically (back-pressure avoidance)

	// KeyHist records, per path+key, the sequence of (op kind, batch
	// index, epoch) so violations can be classified.
	KeyHist map[string][]KeyEvent
	Epoch   int // incremented at every merger/persister/reopen step

	opened bool
}

// KeyEvent is one operation on a key.
type KeyEvent struct {
	Kind  byte
	Batch int
	Epoch int
}

// NewExec creates an executor (nothing is opened yet).
func NewExec(cfg Config, dir string, steered bool) *Exec {
	e := &Exec{Cfg: cfg, Dir: dir, Steered: steered,
		Uni: NewUniverse(), Events: map[moss.EventKind]int{}, KeyHist: map[string][]KeyEvent{}}
	var mf model.MergeFn
	if cfg.MergeOp {
		mf = MergeFold
	} else {
		mf = func(k, ex, o []byte) []byte { panic("merge without operator") }
	}
	e.World = model.NewWorld(nil, mf)
	e.D = NewDirector()
	return e
}

func (e *Exec) collOptions() moss.CollectionOptions {
	co := e.Cfg.CollectionOptions()
	co.ReadOnly = e.ReadOnly
	co.OnError = func(err error) {
		e.errMu.Lock()
		e.BgErrs = append(e.BgErrs, err.Error())
		e.errMu.Unlock()
	}
	co.OnEvent = func(ev moss.Event) {
		e.errMu.Lock()
		e.Events[ev.Kind]++
		e.errMu.Unlock()
	}
	return co
}

// BgErrCount returns the number of OnError reports so far.
func (e *Exec) BgErrCount() int {
	e.errMu.Lock()
	defer e.errMu.Unlock()
	return len(e.BgErrs)
}

// BgErrsSince returns the OnError texts from index n on.
func (e *Exec) BgErrsSince(n int) []string {
	e.errMu.Lock()
	defer e.errMu.Unlock()
	if n >= len(e.BgErrs) {
		return nil
	}
	return append([]string{}, e.BgErrs[n:]...)
}

// LastBgErr returns the newest OnError text.
func (e *Exec) LastBgErr() string {
	e.errMu.Lock()
	defer e.errMu.Unlock()
	if len(e.BgErrs) == 0 {
		return ""
	}
	return e.BgErrs[len(e.BgErrs)-1]
}

// Open opens (or reopens) the instance according to the configuration.
func (e *Exec) Open() error {
	e.D.NewInstance()
	e.topBatches, e.ingestSeen = 0, e.D.Cross("merger.ingested")
	if e.Steered && !e.ReadOnly {
		e.D.ArmSteering()
	}
	switch e.Cfg.Backing {
	case "store":
		so := e.Cfg.StoreOptions()
		so.CollectionOptions = e.collOptions()
		if e.FS != nil {
			so.OpenFile = e.FS.Open
		}
		var st *moss.Store
		var c moss.Collection
		err := Safe(func() error {
			var err error
			if e.TwoStepOpen {
				if st, err = moss.OpenStore(e.Dir, so); err != nil {
					return err
				}
				if c, err = st.OpenCollection(so, e.Cfg.PersistOptions()); err != nil {
					st.Close()
					st = nil
				}
				return err
			}
			st, c, err = moss.OpenStoreCollection(e.Dir, so, e.Cfg.PersistOptions())
			return err
		})
		if err != nil {
			return err
		}
		e.Store, e.Coll = st, c
	case "custom":
		if e.Lower == nil {
			e.Lower = NewLower(nil)
		}
		co := e.collOptions()
		co.LowerLevelInit = e.Lower.Snapshot()
		if e.Cfg.NoLowerInit && len(e.Lower.Snapshot().Map()) == 0 {
			co.LowerLevelInit = nil
		}
		co.LowerLevelUpdate = e.Lower.Update
		c, err := moss.NewCollection(co)
		if err != nil {
			return err
		}
		if err = c.Start(); err != nil {
			return err
		}
		e.Coll = c
	default:
		c, err := moss.NewCollection(e.collOptions())
		if err != nil {
			return err
		}
		if err = c.Start(); err != nil {
			return err
		}
		e.Coll = c
	}
	e.opened = true
	if e.Steered && !e.ReadOnly {
		if !e.D.WaitParked("merger", "merger.loop") {
			return fmt.Errorf("watchdog: merger did not reach merger.loop after open")
		}
	}
	return nil
}

type notifier interface {
	NotifyMerger(kind string, synchronous bool) error
}

// Notify sends a merger notification.
func (e *Exec) Notify(kind string, sync bool) error {
	return e.Coll.(notifier).NotifyMerger(kind, sync)
}

// BuildBatch converts a model batch into a moss batch.
func (e *Exec) BuildBatch(mb *model.Batch) (moss.Batch, error) {
	ops, bytes := batchSize(mb)
	unhinted := !e.Cfg.Alloc && !hasAlloc(mb) && e.World.N()%3 == 1
	if unhinted {
		// every third batch is created without size hints, as applications
		// that do not know their batch sizes do
		ops, bytes = 0, 0
	}
	b, err := e.Coll.NewBatch(ops, bytes)
	if err != nil {
		return nil, err
	}
	if err := fillBatch(b, mb, e.Cfg.Alloc, unhinted); err != nil {
		b.Close()
		return nil, err
	}
	return b, nil
}

func hasAlloc(mb *model.Batch) bool {
	for _, op := range mb.Ops {
		if op.Alloc {
			return true
		}
	}
	for _, c := range mb.Children {
		if hasAlloc(c.B) {
			return true
		}
	}
	return false
}

func batchSize(mb *model.Batch) (int, int) {
	n, sz := len(mb.Ops), 0
	for _, op := range mb.Ops {
		sz += len(op.Key) + len(op.Val) + 3 // + room for slack behind Alloc-built entries
	}
	return n, sz
}

func fillBatch(b moss.Batch, mb *model.Batch, alloc bool, unhinted bool) error {
	// Alloc-built entries are registered in four ways, all within the
	// documented contract (key and value are adjacent bytes that came from
	// Alloc): exactly-sized region used at once; region with unused slack
	// behind the value; registration deferred until after the next
	// operation has been added; two entries carved out of one region and
	// registered afterwards.
	dup := map[string]int{}
	for _, op := range mb.Ops {
		dup[string(op.Key)]++
	}
	register := func(kind byte, k, v []byte) error {
		switch kind {
		case 'S':
			return b.AllocSet(k, v)
		case 'D':
			return b.AllocDel(k)
		case 'M':
			return b.AllocMerge(k, v)
		}
		return nil
	}
	carve := func(buf []byte, op model.Op) (k, v []byte) {
		vl := len(op.Val)
		if op.Kind == 'D' {
			vl = 0
		}
		copy(buf, op.Key)
		copy(buf[len(op.Key):], op.Val[:vl])
		return buf[:len(op.Key)], buf[len(op.Key) : len(op.Key)+vl]
	}
	size := func(op model.Op) int {
		if op.Kind == 'D' {
			return len(op.Key)
		}
		return len(op.Key) + len(op.Val)
	}
	type pend struct {
		kind byte
		k, v []byte
	}
	var deferred []pend
	flush := func() error {
		for _, p := range deferred {
			if err := register(p.kind, p.k, p.v); err != nil {
				return fmt.Errorf("op %c %q (deferred): %v", p.kind, p.k, err)
			}
		}
		deferred = nil
		return nil
	}
	for i := 0; i < len(mb.Ops); i++ {
		op := mb.Ops[i]
		useAlloc := alloc || op.Alloc
		var err error
		if useAlloc {
			variant := (i + len(op.Key) + len(mb.Ops)) % 4
			if dup[string(op.Key)] > 1 {
				variant = 0 // order among equal keys matters
			}
			var buf []byte
			switch {
			case variant == 3 && i+1 < len(mb.Ops) && (alloc || mb.Ops[i+1].Alloc) && dup[string(mb.Ops[i+1].Key)] == 1:
				op2 := mb.Ops[i+1]
				buf, err = b.Alloc(size(op) + size(op2))
				if err != nil {
					return fmt.Errorf("Alloc: %v", err)
				}
				k1, v1 := carve(buf, op)
				k2, v2 := carve(buf[size(op):], op2)
				if err = register(op.Kind, k1, v1); err == nil {
					err = register(op2.Kind, k2, v2)
				}
				i++
			default:
				slack := 0
				if variant == 1 {
					slack = 3
				}
				buf, err = b.Alloc(size(op) + slack)
				if err != nil && slack > 0 {
					buf, err = b.Alloc(size(op)) // no room for slack
				}
				if err != nil {
					return fmt.Errorf("Alloc: %v", err)
				}
				k, v := carve(buf, op)
				if variant == 2 {
					deferred = append(deferred, pend{op.Kind, k, v})
					continue
				}
				err = register(op.Kind, k, v)
			}
		} else {
			switch op.Kind {
			case 'S':
				err = b.Set(op.Key, op.Val)
			case 'D':
				err = b.Del(op.Key)
			case 'M':
				err = b.Merge(op.Key, op.Val)
			}
		}
		if err != nil {
			return fmt.Errorf("op %c %q: %v", op.Kind, op.Key, err)
		}
		if err := flush(); err != nil {
			return err
		}
	}
	if err := flush(); err != nil {
		return err
	}
	for _, name := range mb.DelChildren {
		if err := b.DelChildCollection(name); err != nil {
			return fmt.Errorf("DelChildCollection(%q): %v", name, err)
		}
	}
	for _, cb := range mb.Children {
		n, sz := batchSize(cb.B)
		if unhinted {
			n, sz = 0, 0
		}
		child, err := b.NewChildCollectionBatch(cb.Name, moss.BatchOptions{TotalOps: n, TotalKeyValBytes: sz})
		if err != nil {
			return fmt.Errorf("NewChildCollectionBatch(%q): %v", cb.Name, err)
		}
		if err := fillBatch(child, cb.B, alloc, unhinted); err != nil {
			return err
		}
	}
	return nil
}

func (e *Exec) recordHist(path []string, b *model.Batch, idx int) {
	for _, op := range b.Ops {
		pk := pkey(path) + "\x01" + string(op.Key)
		e.KeyHist[pk] = append(e.KeyHist[pk], KeyEvent{op.Kind, idx, e.Epoch})
	}
	for _, cb := range b.Children {
		e.recordHist(append(append([]string{}, path...), cb.Name), cb.B, idx)
	}
}

// Hist returns the operation history of a key.
func (e *Exec) Hist(path []string, key string) []KeyEvent {
	return e.KeyHist[pkey(path)+"\x01"+key]
}

// ExecBatch executes a batch on the collection and applies it to the model.
// In steered mode it first makes room in the dirty top if needed.
func (e *Exec) ExecBatch(mb *model.Batch) error {
	if e.Steered && !e.ReadOnly && !mb.Empty() {
		if err := e.makeRoom(); err != nil {
			return err
		}
	}
	b, err := e.BuildBatch(mb)
	if err != nil {
		return err
	}
	err = e.Coll.ExecuteBatch(b, moss.WriteOptions{})
	b.Close()
	if err != nil {
		return fmt.Errorf("ExecuteBatch: %v", err)
	}
	if !mb.Empty() {
		e.noteIngests()
		e.topBatches++
	}
	if !mb.Empty() {
		e.World.Apply(mb)
		e.Uni.AddBatch(nil, mb)
		e.recordHist(nil, mb, e.World.N())
	}
	return nil
}

// noteIngests resets the count of batches sitting in the dirty top when the
// merger has ingested since the last look (hook merger.ingested).
func (e *Exec) noteIngests() {
	if c := e.D.Cross("merger.ingested"); c != e.ingestSeen {
		e.ingestSeen = c
		e.topBatches = 0
	}
}

// makeRoom runs directed cycles until a batch can be accepted without
// blocking on MaxPreMergerBatches.
func (e *Exec) makeRoom() error {
	for i := 0; i < 8; i++ {
		st, err := e.Coll.Stats()
		if err != nil {
			return err
		}
		// Every accepted batch counts against MaxPreMergerBatches, also one
		// that adds no segment anywhere (child creation / deletion only), so
		// the gauge alone does not say whether the next batch would block.
		e.noteIngests()
		if int(st.CurDirtyTopSegments) < e.Cfg.MaxPre() && e.topBatches < e.Cfg.MaxPre() {
			return nil
		}
		r := e.MergerCycle("plain", "")
		e.AutoLog = append(e.AutoLog, fmt.Sprintf("auto-merge(%s)@n=%d", r, e.World.N()))
		if r == ResWaitOutgoing || r == ResNotAtLoop {
			pr := e.PersisterRound("")
			e.AutoLog = append(e.AutoLog, fmt.Sprintf("auto-persist(%s)", pr))
			if pr == ResWatchdog {
				return fmt.Errorf("watchdog: persister round")
			}
			if pr == ResEnd && !e.D.WaitMergerSettled() {
				return fmt.Errorf("watchdog: merger did not settle")
			}
		}
		if r == ResWatchdog {
			return fmt.Errorf("watchdog: merger cycle")
		}
	}
	return fmt.Errorf("could not make room in dirty top")
}

// MergerCycle runs one directed merger cycle ("plain" | "mergeAll" |
// "idle" kinds map to the ping kind).
func (e *Exec) MergerCycle(kind, parkAt string) MergerResult {
	e.Epoch++
	if p := e.D.Parked("merger"); p != "" && p != "merger.loop" {
		// A cycle is in flight, parked at an intermediate point: finish it.
		return e.D.ResumeMerger()
	}
	pk := kind
	switch kind {
	case "plain":
		pk = "verif"
	case "idle":
		pk = "from-idle-merger"
	}
	return e.D.MergerCycle(func() { e.Notify(pk, false) }, parkAt)
}

// PersisterPending reports whether a base stack has been handed over and
// not yet persisted.
func (e *Exec) PersisterPending() bool {
	if e.Cfg.Backing == "none" || e.ReadOnly {
		return false
	}
	st, err := e.Coll.Stats()
	if err != nil {
		return false
	}
	return int(st.TotMergerLowerLevelNotify) > e.D.Cross("persister.end")
}

// PersisterRound runs one directed persister round if one is pending.
func (e *Exec) PersisterRound(parkAt string) MergerResult {
	e.Epoch++
	if p := e.D.Parked("persister"); p != "" && p != "persister.begin" {
		// A round is in flight, parked at an intermediate point: finish it.
		r := e.D.ResumePersister()
		if r == ResEnd {
			e.settleMerger()
		}
		return r
	}
	if !e.PersisterPending() {
		return ResNone
	}
	r := e.D.PersisterRound(parkAt)
	if r == ResEnd && e.D.WaitOutgoing() {
		e.D.WaitMergerSettled()
	}
	// The merger may have been released from its wait on the persister.
	if r == ResEnd {
		e.settleMerger()
	}
	return r
}

func (e *Exec) settleMerger() {
	// If the merger was blocked in waitOutgoing it now runs to merger.loop.
	// Nothing to do otherwise.
	if e.D.Parked("merger") == "" {
		e.D.WaitMergerSettled()
	}
}

// Drain runs n directed merger+persister iterations.
func (e *Exec) Drain(n int) error {
	for i := 0; i < n; i++ {
		r := e.MergerCycle("plain", "")
		if r == ResWatchdog {
			return fmt.Errorf("watchdog: merger cycle in drain")
		}
		pr := e.PersisterRound("")
		if pr == ResWatchdog {
			return fmt.Errorf("watchdog: persister round in drain")
		}
		if r == ResWaitOutgoing || r == ResNotAtLoop {
			if !e.D.WaitMergerSettled() {
				return fmt.Errorf("watchdog: merger settle in drain")
			}
		}
	}
	return nil
}

// CloseColl closes the collection (gates opened first).
func (e *Exec) CloseColl() error {
	if e.Coll == nil {
		return nil
	}
	e.D.DisarmAll()
	err := e.Coll.Close()
	e.Coll = nil
	return err
}

// CloseCollMid closes the collection while background goroutines may be
// parked: Close is called first, the gates open only once Close has
// signalled the stop.
func (e *Exec) CloseCollMid() error {
	if e.Coll == nil {
		return nil
	}
	done := make(chan error, 1)
	c := e.Coll
	base := e.D.Cross("close.stopping")
	go func() { done <- c.Close() }()
	ok := e.D.WaitCross("close.stopping", base+1)
	e.D.DisarmAll()
	if !ok {
		return fmt.Errorf("watchdog: close.stopping not reached")
	}
	select {
	case err := <-done:
		e.Coll = nil
		return err
	case <-time.After(e.D.Watchdog):
		return fmt.Errorf("watchdog: Close did not return")
	}
}

// CloseStore closes the store.
func (e *Exec) CloseStore() error {
	if e.Store == nil {
		return nil
	}
	e.partialsEver += e.storePartials()
	err := e.Store.Close()
	e.Store = nil
	return err
}

// AbortStore closes the store with StoreCloseExOptions{Abort: true}: store
// operations in flight stop as soon as possible.
func (e *Exec) AbortStore() error {
	if e.Store == nil {
		return nil
	}
	e.partialsEver += e.storePartials()
	err := e.Store.CloseEx(moss.StoreCloseExOptions{Abort: true})
	e.Store = nil
	return err
}

func (e *Exec) storePartials() uint64 {
	if e.Store == nil {
		return 0
	}
	var n uint64
	Safe(func() error {
		ss, err := e.Store.Stats()
		if err == nil {
			n, _ = ss["total_compactions_partial"].(uint64)
		}
		return nil
	})
	return n
}

// Partials returns the number of partial (leveled) compactions every store
// instance of this execution has run so far, observed round or not.
func (e *Exec) Partials() uint64 { return e.partialsEver + e.storePartials() }

// CloseAll closes collection then store.
func (e *Exec) CloseAll() error {
	err := e.CloseColl()
	if err2 := e.CloseStore(); err == nil {
		err = err2
	}
	return err
}

// Shape summarises where the dirty data currently sits.
type Shape struct {
	Top, Mid, Base, Clean int
	LL                    string // none | empty | nonEmpty
}

func (s Shape) String() string {
	c := func(n, max int) int {
		if n > max {
			return max
		}
		return n
	}
	return fmt.Sprintf("t%dm%db%dc%d/%s", c(s.Top, 3), c(s.Mid, 3), c(s.Base, 2), c(s.Clean, 2), s.LL)
}

// Shape samples the collection's section heights.
func (e *Exec) Shape() Shape {
	var s Shape
	if e.Coll == nil {
		return s
	}
	st, err := e.Coll.Stats()
	if err != nil || st == nil {
		return s
	}
	s.Top, s.Mid, s.Base, s.Clean = int(st.CurDirtyTopSegments), int(st.CurDirtyMidSegments),
		int(st.CurDirtyBaseSegments), int(st.CurCleanSegments)
	s.LL = "none"
	switch e.Cfg.Backing {
	case "store":
		if e.Store != nil {
			ss, _ := e.Store.Stats()
			if ss != nil {
				if n, _ := ss["num_segments"].(uint64); n > 0 {
					s.LL = "nonEmpty"
				} else {
					s.LL = "empty"
				}
			}
		}
	case "custom":
		if e.Lower != nil && len(e.Lower.Snapshot().kv) > 0 {
			s.LL = "nonEmpty"
		} else {
			s.LL = "empty"
		}
	}
	return s
}

// StoreStat returns a uint64 store statistic (0 if unavailable).
func (e *Exec) StoreStat(name string) uint64 {
	if e.Store == nil {
		return 0
	}
	ss, err := e.Store.Stats()
	if err != nil {
		return 0
	}
	v, _ := ss[name].(uint64)
	return v
}

// DirFiles lists the store directory.
func DirFiles(dir string) []string {
	ents, err := os.ReadDir(dir)
	if err != nil {
		return nil
	}
	var out []string
	for _, e := range ents {
		out = append(out, e.Name())
	}
	return out
}

// Describe renders a batch compactly for samples and replays.
func DescribeBatch(b *model.Batch) string {
	var sb strings.Builder
	for i, op := range b.Ops {
		if i > 0 {
			sb.WriteByte(' ')
		}
		switch op.Kind {
		case 'S':
			fmt.Fprintf(&sb, "S(%q=%s)", op.Key, q(op.Val))
		case 'D':
			fmt.Fprintf(&sb, "D(%q)", op.Key)
		case 'M':
			fmt.Fprintf(&sb, "M(%q+%s)", op.Key, q(op.Val))
		}
	}
	for _, n := range b.DelChildren {
		fmt.Fprintf(&sb, " delchild(%s)", n)
	}
	for _, cb := range b.Children {
		fmt.Fprintf(&sb, " %s{%s}", cb.Name, DescribeBatch(cb.B))
	}
	return sb.String()
}
