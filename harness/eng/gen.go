package eng

import (
	"bytes"
	"fmt"
	"sort"

	"mossverif/model"
)

// DenseKeys is the small hostile key universe used by steered programs.
var DenseKeys = []string{
	"", "a", "ab", "abc", "abd", "b", "b\x00", "b\x00\x00", "b\xff", "c",
	"k1", "k10", "k2", "m", "\x00", "\x00\x01", "\xff", "\xff\xff", "zz", "0m1o2s",
}

// GenParams controls program generation.
type GenParams struct {
	MinBatches, MaxBatches int
	NKeys                  int // how many of DenseKeys to use
	WideKeys               int // if >0, also use this many generated keys per batch (wide universe)
	Children               bool
	Nested                 bool
	Merge                  bool
	ChildOnlyPct           int // percentage of child-only batches (needs Children)
	DelOnlyPct             int // percentage of delete-only (DelChildCollection only) batches
	Handles                bool
	StoreHandles           bool
	Reopen                 bool
	ReopenMid              bool
	Park                   bool // use intermediate park points
	TailClose              bool // end with closecoll / closestore while handles are open
	FinalReopen            bool // end with a caught-up reopen
	Idle                   bool // use idle merger cycles
	NoPersistSteps         bool
	CrossBias              bool     // inject "background step completes while the other one is parked mid-way" patterns after batches
	SmallVals              bool     // no multi-KB values (keeps small batches small, for leveled compaction)
	Lean                   bool     // no merger cycle without a new batch, no drain: an empty hand-over makes mossStore run a full (idle) compaction
	PersistAfterBatchPct   int      // percentage of batches followed by a directed merge + persist
	FirstWide              int      // the first batch gets this many extra generated keys (big-then-small histories)
	FirstBurst             int      // with FirstWide: this many ordinary batches follow the first one before the first merger cycle and persister round
	QuietPct               int      // percentage of programs whose monitors run only at explicit check points
	SkewedWide             bool     // wide keys with skewed lengths (long keys sorting first), for key-index windows
	Keys                   []string // explicit key pool (overrides DenseKeys/NKeys)
	HostileVals            bool     // values with hostile lengths / contents
	BytelessPct            int      // percentage of batches that only touch the empty key with no value bytes (Del(""), Set("",""), Merge("",""))
	RefusePct              int      // (needs Merge) percentage of batches followed by a phase in which the merge operator refuses to merge (FullMerge returns false) over some merger cycles
}

// GenConfig draws a configuration for the steered engine.
func GenConfig(r *Rng, backing string, merge bool) Config {
	c := Config{Backing: backing, MergeOp: merge}
	switch r.Intn(4) {
	case 0:
		c.MinMergePercentage = 0.05
	case 1:
		c.MinMergePercentage = 50
	}
	c.DeferredSort = r.Chance(1, 3)
	c.CachePersisted = r.Chance(1, 2)
	c.MaxPreMergerBatches = r.Pick(2, 3, 4, 10)
	c.Alloc = r.Chance(1, 5)
	if backing == "store" {
		c.Concern = r.Pick(0, 1, 1, 1, 2)
		if c.Concern == 1 {
			c.LevelMaxSegments = r.Pick(1, 2, 2, 3, 4)
			c.LevelMultiplier = r.Pick(2, 3, 9)
			if r.Chance(1, 3) {
				c.CompactionPercentage = []float64{0.01, 0.3, 0.99}[r.Intn(3)]
			}
		}
		c.BufferPages = r.Pick(0, 1, 2, 512)
		c.NoSync = r.Chance(1, 3)
		c.CompactionSync = r.Chance(1, 3)
		if r.Chance(1, 3) {
			c.SyncAfterBytes = r.Pick(-1, 1, 100)
		}
		switch r.Intn(4) {
		case 0:
			c.IndexMaxBytes = -1
		case 1:
			c.IndexMaxBytes = r.Pick(9, 17, 64, 1000)
			c.IndexMinKeyBytes = 1
		}
	}
	if backing == "custom" {
		// an application lower level that starts out with nothing may as
		// well hand moss no initial snapshot at all
		c.NoLowerInit = r.Chance(1, 3)
	}
	if backing != "none" && r.Chance(1, 6) {
		c.MaxDirtyOps = uint64(r.Pick(1, 3, 8))
		c.MaxDirtyKeyValBytes = uint64(r.Pick(10, 100, 100000))
	}
	return c
}

// PartialCompactionProfile turns a store configuration and its generator
// parameters into one that produces partial (leveled, same-file)
// compactions: few segments per level, a small multiplier, the
// fragmentation threshold out of the way (page padding otherwise makes tiny
// files look fragmented and every compaction a full one), a big first batch
// and a persistence round after most batches.
func PartialCompactionProfile(r *Rng, cfg *Config, gp *GenParams) {
	if cfg.Backing != "store" {
		return
	}
	cfg.Concern = 1
	cfg.LevelMaxSegments = r.Pick(2, 2, 3)
	cfg.LevelMultiplier = r.Pick(2, 3, 3)
	cfg.CompactionPercentage = 100
	cfg.MaxDirtyOps, cfg.MaxDirtyKeyValBytes = 0, 0
	gp.FirstWide = 300 + r.Intn(600)
	gp.PersistAfterBatchPct = 85
	gp.Lean = true
	gp.Idle = false
	gp.SmallVals = true
	if gp.MaxBatches < 10 {
		gp.MaxBatches = 10
	}
	if gp.MinBatches < 6 {
		gp.MinBatches = 6
	}
	if gp.Children && !gp.Nested {
		// the splice point is computed on the top-level collection and then
		// applied, clamped, at every nesting level
		gp.Nested = r.Chance(1, 2)
	}
}

type genState struct {
	r       *Rng
	gp      GenParams
	keys    []string
	batchNo int
	uniq    int
	lonely  bool // the last batch only created or deleted a child collection
	// tree of existing children as the generator believes (used only to
	// make interesting choices, not for checking)
	tree *model.Coll
}

// HostileBytes returns byte strings that resemble the store's own framing
// or sit on page boundaries.
func HostileBytes(r *Rng, forKey bool) []byte {
	magicB := []byte("0m1o2s0m1o2s")
	magicE := []byte("3s4p5s3s4p5s")
	le32 := func(v uint32) []byte { return []byte{byte(v), byte(v >> 8), byte(v >> 16), byte(v >> 24)} }
	switch r.Intn(12) {
	case 0:
		return []byte{}
	case 1:
		return bytes.Repeat([]byte{0}, 1+r.Intn(9))
	case 2:
		return bytes.Repeat([]byte{0xff}, 1+r.Intn(9))
	case 3: // footer begin: magic x2, version 4, plausible length
		b := append([]byte{}, magicB...)
		b = append(b, le32(4)...)
		b = append(b, le32(uint32(r.Pick(0, 28, 60, 200, 1<<20)))...)
		return b
	case 4:
		if r.Chance(1, 2) {
			// footer begin with an arbitrary "version" word and length
			b := append([]byte{}, magicB...)
			b = append(b, le32(uint32(r.Pick(0, 3, 5, 0x30303030, 0xffffffff)))...)
			b = append(b, le32(uint32(r.Pick(0, 40, 4096, 1<<30)))...)
			for i := r.Intn(12); i > 0; i-- {
				b = append(b, byte('a'+r.Intn(26)))
			}
			return b
		}
		return append([]byte{}, magicE...)
	case 5: // header look-alike
		return []byte("moss-data-store:\n{\"Version\":4}\n")
	case 6:
		n := r.Pick(4095, 4096, 4097, 8191, 8192, 8193)
		if forKey {
			n = r.Pick(255, 256, 4095, 4096, 4097)
		}
		b := bytes.Repeat([]byte{byte('A' + r.Intn(26))}, n)
		return b
	case 7: // page-sized with magic at what could become a page start
		b := append([]byte{}, magicB...)
		b = append(b, le32(4)...)
		b = append(b, le32(0)...)
		b = append(b, bytes.Repeat([]byte{'x'}, r.Pick(4096, 8192)-len(b))...)
		return b
	case 8:
		return []byte{0x00, 0xff, 0x00, 0xff}
	case 9:
		return []byte("\x00")
	default:
		n := r.Intn(40)
		b := make([]byte, n)
		for i := range b {
			b[i] = byte(r.Intn(256))
		}
		return b
	}
}

func (g *genState) val() []byte {
	g.uniq++
	if g.gp.HostileVals && g.r.Chance(2, 3) {
		return HostileBytes(g.r, false)
	}
	switch g.r.Intn(10) {
	case 0:
		return []byte{} // empty value (not unique)
	}
	pad := g.r.Intn(14)
	v := []byte(fmt.Sprintf("b%d.%d", g.batchNo, g.uniq))
	for i := 0; i < pad; i++ {
		v = append(v, byte('a'+g.r.Intn(26)))
	}
	if !g.gp.SmallVals && g.r.Chance(1, 12) {
		v = append(v, make([]byte, g.r.Pick(100, 4000, 4096, 9000))...)
	}
	return v
}

func (g *genState) uniqueVal() []byte {
	g.uniq++
	return []byte(fmt.Sprintf("u%d.%d", g.batchNo, g.uniq))
}

// ops generates 0..max operations over distinct keys; if mustUnique, one
// of them is a Set with a globally unique value.
func (g *genState) ops(cur *model.Coll, max int, mustUnique bool) []model.Op {
	n := g.r.Intn(max + 1)
	if mustUnique && n == 0 {
		n = 1
	}
	perm := make([]int, len(g.keys))
	for i := range perm {
		perm[i] = i
	}
	for i := len(perm) - 1; i > 0; i-- {
		j := g.r.Intn(i + 1)
		perm[i], perm[j] = perm[j], perm[i]
	}
	if n > len(perm) {
		n = len(perm)
	}
	var ops []model.Op
	for i := 0; i < n; i++ {
		k := []byte(g.keys[perm[i]])
		if i == 0 && mustUnique {
			ops = append(ops, model.Op{Kind: 'S', Key: k, Val: g.uniqueVal()})
			continue
		}
		x := g.r.Intn(100)
		switch {
		case x < 30:
			ops = append(ops, model.Op{Kind: 'D', Key: k})
		case x < 50 && g.gp.Merge:
			v := g.val()
			if g.r.Chance(1, 8) {
				v = MergeClear
			}
			ops = append(ops, model.Op{Kind: 'M', Key: k, Val: v})
		default:
			ops = append(ops, model.Op{Kind: 'S', Key: k, Val: g.val()})
		}
	}
	for w := 0; w < g.gp.WideKeys; w++ {
		k := []byte(fmt.Sprintf("w%05d", g.r.Intn(g.gp.WideKeys*4)))
		if g.gp.SkewedWide && g.r.Chance(1, 8) {
			// long keys that sort before the short ones
			k = append([]byte("aa"), bytes.Repeat([]byte{byte('a' + g.r.Intn(26))}, 40+g.r.Intn(160))...)
			k = append(k, []byte(fmt.Sprint(g.r.Intn(g.gp.WideKeys*4)))...)
		}
		dup := false
		for _, o := range ops {
			if string(o.Key) == string(k) {
				dup = true
			}
		}
		if dup {
			continue
		}
		if g.r.Chance(1, 5) {
			ops = append(ops, model.Op{Kind: 'D', Key: k})
		} else {
			ops = append(ops, model.Op{Kind: 'S', Key: k, Val: g.val()})
		}
	}
	return ops
}

var childNames = []string{"A", "B", "C"}
var nestedNames = []string{"X", "Y"}

func (g *genState) batch() *model.Batch {
	g.batchNo++
	b := &model.Batch{}
	r := g.r
	childOnly := g.gp.Children && r.Intn(100) < g.gp.ChildOnlyPct
	delOnly := g.gp.Children && !childOnly && r.Intn(100) < g.gp.DelOnlyPct && len(g.tree.Ch) > 0
	if g.gp.Children && !childOnly && !delOnly && r.Intn(100) < g.gp.DelOnlyPct {
		// creation-only batch: nothing but a still empty child collection
		for _, name := range childNames {
			if _, ok := g.tree.Ch[name]; !ok {
				b.Children = []model.ChildBatch{{Name: name, B: &model.Batch{}}}
				g.tree.Apply(b, MergeFold)
				g.lonely = true
				return b
			}
		}
	}
	if delOnly {
		g.lonely = true
		names := g.tree.ChildNames()
		name := names[r.Intn(len(names))]
		if sub := g.tree.Ch[name].ChildNames(); g.gp.Nested && len(sub) > 0 && r.Chance(1, 2) {
			// delete only a grandchild: the batch mentions the child with a
			// child batch that holds nothing but the nested deletion
			b.Children = []model.ChildBatch{{Name: name, B: &model.Batch{DelChildren: []string{sub[r.Intn(len(sub))]}}}}
		} else {
			b.DelChildren = []string{name}
		}
		g.tree.Apply(b, MergeFold)
		return b
	}
	if !childOnly && len(g.keys) > 0 && g.keys[0] == "" && r.Intn(100) < g.gp.BytelessPct {
		// a batch that adds no bytes at all to its segment's buffer
		op := model.Op{Kind: 'D', Key: []byte{}}
		if _, ok := g.tree.KV[""]; !ok || r.Chance(1, 3) {
			op = model.Op{Kind: 'S', Key: []byte{}, Val: []byte{}}
			if g.gp.Merge && r.Chance(1, 3) {
				op.Kind = 'M'
			}
		}
		b.Ops = []model.Op{op}
		g.tree.Apply(b, MergeFold)
		return b
	}
	needUnique := true
	if !childOnly {
		b.Ops = g.ops(g.tree, 5, true)
		needUnique = false
	}
	if g.gp.Children && (childOnly || r.Chance(1, 2)) {
		nm := 1 + r.Intn(2)
		used := map[string]bool{}
		for i := 0; i < nm; i++ {
			name := childNames[r.Intn(len(childNames))]
			if used[name] {
				continue
			}
			used[name] = true
			_, exists := g.tree.Ch[name]
			if exists && r.Chance(1, 5) && !(needUnique && i == 0) {
				b.DelChildren = append(b.DelChildren, name)
				continue
			}
			cb := &model.Batch{}
			if needUnique {
				cb.Ops = g.ops(nil, 4, true)
				needUnique = false
			} else if !r.Chance(1, 6) { // else: empty child batch = creation only
				cb.Ops = g.ops(nil, 4, false)
			}
			if g.gp.Nested && r.Chance(1, 3) {
				nn := nestedNames[r.Intn(len(nestedNames))]
				var sub *model.Coll
				if ch := g.tree.Ch[name]; ch != nil {
					sub = ch.Ch[nn]
				}
				if sub != nil && r.Chance(1, 4) {
					cb.DelChildren = append(cb.DelChildren, nn)
				} else {
					cb.Children = append(cb.Children, model.ChildBatch{Name: nn, B: &model.Batch{Ops: g.ops(nil, 3, false)}})
					if !childOnly && r.Chance(1, 2) {
						// only the grandchild is written: it collects more
						// persisted segments than the child it lives in
						cb.Ops = nil
					}
				}
			}
			b.Children = append(b.Children, model.ChildBatch{Name: name, B: cb})
		}
	}
	if needUnique {
		// child-only batch that ended up with deletions only: add a
		// child write so that the content changes identifiably.
		name := childNames[r.Intn(len(childNames))]
		ok := true
		for _, d := range b.DelChildren {
			if d == name {
				ok = false
			}
		}
		for _, c := range b.Children {
			if c.Name == name {
				ok = false
			}
		}
		if ok {
			b.Children = append(b.Children, model.ChildBatch{Name: name, B: &model.Batch{Ops: g.ops(nil, 2, true)}})
		} else {
			b.Ops = g.ops(nil, 2, true)
		}
	}
	g.tree.Apply(b, MergeFold)
	return b
}

// childMergeBatch generates a batch whose child batches hold Merge operands
// on keys that already exist in those child collections (values that live
// in older sections or in the lower level by now), plus one unique top-level
// Set.  Falls back to an ordinary batch when no child has a key.
func (g *genState) childMergeBatch() *model.Batch {
	var names []string
	for _, n := range g.tree.ChildNames() {
		ok := len(g.tree.Ch[n].KV) > 0
		for _, sub := range g.tree.Ch[n].Ch {
			if g.gp.Nested && len(sub.KV) > 0 {
				ok = true
			}
		}
		if ok {
			names = append(names, n)
		}
	}
	if len(names) == 0 || !g.gp.Merge {
		return g.batch()
	}
	g.batchNo++
	b := &model.Batch{Ops: []model.Op{{Kind: 'S', Key: []byte(g.keys[g.r.Intn(len(g.keys))]), Val: g.uniqueVal()}}}
	for _, n := range names {
		if len(b.Children) > 0 && g.r.Chance(1, 2) {
			continue
		}
		keys := g.tree.Ch[n].SortedKeys()
		cb := &model.Batch{}
		for _, k := range keys {
			if len(cb.Ops) < 3 && g.r.Chance(2, 3) {
				cb.Ops = append(cb.Ops, model.Op{Kind: 'M', Key: []byte(k), Val: g.val()})
			}
		}
		if len(cb.Ops) == 0 && len(keys) > 0 {
			cb.Ops = append(cb.Ops, model.Op{Kind: 'M', Key: []byte(keys[0]), Val: g.val()})
		}
		if g.gp.Nested {
			// operands on grandchild keys as well (two levels of child
			// stacks have to be re-pointed at the lower level)
			for _, nn := range g.tree.Ch[n].ChildNames() {
				sk := g.tree.Ch[n].Ch[nn].SortedKeys()
				if len(sk) == 0 || (len(cb.Ops) > 0 && g.r.Chance(1, 3)) {
					continue
				}
				nb := &model.Batch{}
				for _, k := range sk {
					if len(nb.Ops) < 3 && (len(nb.Ops) == 0 || g.r.Chance(1, 2)) {
						nb.Ops = append(nb.Ops, model.Op{Kind: 'M', Key: []byte(k), Val: g.val()})
					}
				}
				cb.Children = append(cb.Children, model.ChildBatch{Name: nn, B: nb})
			}
		}
		if len(cb.Ops) == 0 && len(cb.Children) == 0 {
			continue
		}
		b.Children = append(b.Children, model.ChildBatch{Name: n, B: cb})
	}
	g.tree.Apply(b, MergeFold)
	return b
}

// nestedCrossBatches generates three batches for a grandchild collection
// that has keys: (1) a write to another key of the grandchild (so that the
// stack handed to the persister carries a stack for it), (2) Merge operands
// on an existing key of the grandchild whose value lives further down,
// (3) a write to a larger key of the grandchild (a second segment, so that
// the merger itself resolves the operand).  Returns nil when there is no
// grandchild with keys.
func (g *genState) nestedCrossBatches() []*model.Batch {
	if !g.gp.Merge || !g.gp.Nested {
		return nil
	}
	for _, n := range g.tree.ChildNames() {
		for _, nn := range g.tree.Ch[n].ChildNames() {
			sk := g.tree.Ch[n].Ch[nn].SortedKeys()
			if len(sk) == 0 {
				continue
			}
			target := sk[0]
			all := append([]string{}, g.keys...)
			sort.Strings(all)
			larger := all[len(all)-1]
			other := all[len(all)/2]
			if larger == target || other == target {
				continue
			}
			wrap := func(ops []model.Op) *model.Batch {
				g.batchNo++
				b := &model.Batch{Children: []model.ChildBatch{{Name: n, B: &model.Batch{
					Children: []model.ChildBatch{{Name: nn, B: &model.Batch{Ops: ops}}}}}}}
				g.tree.Apply(b, MergeFold)
				return b
			}
			return []*model.Batch{
				wrap([]model.Op{{Kind: 'S', Key: []byte(other), Val: g.uniqueVal()}}),
				wrap([]model.Op{{Kind: 'M', Key: []byte(target), Val: g.uniqueVal()}}),
				wrap([]model.Op{{Kind: 'S', Key: []byte(larger), Val: g.uniqueVal()}}),
			}
		}
	}
	return nil
}

// recreateBatches generates the batches of a "deleted and recreated with
// Merge operands" history for an existing child collection that has keys:
// delete it; recreate it with Merge operands on keys its predecessor had;
// one more write to the new incarnation (so that the merger sees two
// segments of it).  Returns nil when no child qualifies.
func (g *genState) recreateBatches() []*model.Batch {
	var names []string
	for _, n := range g.tree.ChildNames() {
		if len(g.tree.Ch[n].KV) > 0 {
			names = append(names, n)
		}
	}
	if len(names) == 0 || !g.gp.Merge {
		return nil
	}
	name := names[g.r.Intn(len(names))]
	old := g.tree.Ch[name].SortedKeys()
	var out []*model.Batch
	mk := func(b *model.Batch) {
		g.batchNo++
		g.tree.Apply(b, MergeFold)
		out = append(out, b)
	}
	top := func() []model.Op {
		return []model.Op{{Kind: 'S', Key: []byte(g.keys[g.r.Intn(len(g.keys))]), Val: g.uniqueVal()}}
	}
	mk(&model.Batch{Ops: top(), DelChildren: []string{name}})
	cb := &model.Batch{}
	for _, k := range old {
		if len(cb.Ops) < 3 && (len(cb.Ops) == 0 || g.r.Chance(1, 2)) {
			cb.Ops = append(cb.Ops, model.Op{Kind: 'M', Key: []byte(k), Val: g.val()})
		}
	}
	mk(&model.Batch{Ops: top(), Children: []model.ChildBatch{{Name: name, B: cb}}})
	mk(&model.Batch{Ops: top(), Children: []model.ChildBatch{{Name: name, B: &model.Batch{Ops: []model.Op{{Kind: 'S', Key: []byte(g.keys[g.r.Intn(len(g.keys))]), Val: g.val()}}}}}})
	return out
}

var mergerParks = []string{"merger.ingested", "merger.merged"}
var persisterParks = []string{"persister.updated", "store.persist.begin", "store.persist.segments", "store.persist.footer", "store.persist.end",
	"store.compact.begin", "store.compact.segments", "store.compact.footer", "store.compact.swapped"}

func newGenState(r *Rng, gp GenParams) *genState {
	g := &genState{r: r, gp: gp, tree: model.New()}
	nk := gp.NKeys
	if nk <= 0 || nk > len(DenseKeys) {
		nk = len(DenseKeys)
	}
	// choose a random subset of the dense keys, always including "".
	perm := make([]int, len(DenseKeys))
	for i := range perm {
		perm[i] = i
	}
	for i := len(perm) - 1; i > 0; i-- {
		j := r.Intn(i + 1)
		perm[i], perm[j] = perm[j], perm[i]
	}
	g.keys = append(g.keys, "")
	for _, i := range perm {
		if len(g.keys) >= nk {
			break
		}
		if DenseKeys[i] != "" {
			g.keys = append(g.keys, DenseKeys[i])
		}
	}
	if len(gp.Keys) > 0 {
		g.keys = append([]string{}, gp.Keys...)
	}
	return g
}

// BatchGen generates a stream of batches with the program generator's
// batch shapes (for engines that have their own step language).
type BatchGen struct{ g *genState }

// NewBatchGen creates a batch generator.
func NewBatchGen(r *Rng, gp GenParams) *BatchGen { return &BatchGen{g: newGenState(r, gp)} }

// Next returns the next batch.
func (b *BatchGen) Next() *model.Batch { return b.g.batch() }

// GenProgram generates a steered program.
func GenProgram(r *Rng, prop string, cfg Config, gp GenParams) *Program {
	g := newGenState(r, gp)
	p := &Program{Prop: prop, Seed: r.S, Cfg: cfg}
	if gp.QuietPct > 0 && r.Intn(100) < gp.QuietPct {
		p.Quiet = true
	}
	nb := gp.MinBatches + r.Intn(gp.MaxBatches-gp.MinBatches+1)
	store := cfg.Backing == "store"
	lower := cfg.Backing != "none"
	nextH := 1
	open := []int{}    // snapshot handles
	openAll := []int{} // all handles
	iters := []int{}   // iterator handles
	add := func(s Step) { p.Steps = append(p.Steps, s) }
	mergeKind := func() string {
		x := r.Intn(10)
		switch {
		case x < 5:
			return "plain"
		case x < 8:
			return "mergeAll"
		case gp.Idle:
			return "idle"
		}
		return "plain"
	}
	fresh := false // a batch was generated since the last merger cycle
	bgSteps := func() {
		n := r.Intn(4)
		for i := 0; i < n; i++ {
			x := r.Intn(10)
			if gp.Lean && (x >= 9 || (x < 5 && !fresh)) {
				continue
			}
			switch {
			case x < 5:
				fresh = false
				s := Step{K: "merge", A: mergeKind()}
				if gp.Park && r.Chance(1, 3) {
					s.P = mergerParks[r.Intn(len(mergerParks))]
					add(s)
					add(Step{K: "check"})
					// cross pattern: a whole persister round (and maybe a
					// batch) while the merger is parked in mid-cycle
					if lower && !gp.NoPersistSteps && r.Chance(1, 2) {
						add(Step{K: "persist"})
						if r.Chance(1, 3) {
							add(Step{K: "batch", B: g.batch()})
						}
					}
					if r.Chance(2, 3) {
						add(Step{K: "resume", A: "merger"})
					}
				} else {
					add(s)
				}
			case x < 9:
				if !lower || gp.NoPersistSteps {
					continue
				}
				s := Step{K: "persist"}
				if gp.Park && r.Chance(1, 3) {
					if store {
						s.P = persisterParks[r.Intn(len(persisterParks))]
					} else {
						s.P = "persister.updated"
					}
					add(s)
					add(Step{K: "check"})
					// cross pattern: a batch and a whole merger cycle while the
					// persister is parked in mid-round
					if r.Chance(1, 2) {
						if r.Chance(1, 2) {
							add(Step{K: "batch", B: g.batch()})
						}
						add(Step{K: "merge", A: mergeKind()})
						add(Step{K: "check"})
					}
					if r.Chance(2, 3) {
						add(Step{K: "resume", A: "persister"})
					}
				} else {
					add(s)
				}
			default:
				add(Step{K: "drain"})
			}
		}
	}
	handleSteps := func() {
		if !gp.Handles {
			return
		}
		if r.Chance(1, 3) && len(openAll) < 6 {
			h := nextH
			nextH++
			k := "snap"
			if store && gp.StoreHandles && r.Chance(1, 4) {
				k = "ssnap"
			}
			add(Step{K: k, H: h})
			open = append(open, h)
			openAll = append(openAll, h)
		}
		if len(open) > 0 && r.Chance(1, 4) && len(openAll) < 6 {
			par := open[r.Intn(len(open))]
			h := nextH
			nextH++
			if gp.Children && r.Chance(1, 2) {
				add(Step{K: "csnap", H: h, Par: par, A: childNames[r.Intn(len(childNames))]})
				open = append(open, h)
			} else {
				var st, en []byte
				if r.Chance(1, 2) {
					st = []byte(g.keys[r.Intn(len(g.keys))])
				}
				if r.Chance(1, 3) {
					en = []byte(g.keys[r.Intn(len(g.keys))])
				}
				add(Step{K: "iter", H: h, Par: par, Start: st, End: en, N: r.Intn(4)})
				iters = append(iters, h)
			}
			openAll = append(openAll, h)
		}
		if len(iters) > 0 && r.Chance(1, 3) {
			add(Step{K: "iterseek", H: iters[r.Intn(len(iters))], Start: []byte(g.keys[r.Intn(len(g.keys))])})
		}
		if len(openAll) > 0 && r.Chance(1, 8) {
			i := r.Intn(len(openAll))
			h := openAll[i]
			add(Step{K: "closeh", H: h})
			openAll = append(openAll[:i], openAll[i+1:]...)
			for j, x := range open {
				if x == h {
					open = append(open[:j], open[j+1:]...)
					break
				}
			}
		}
	}
	for i := 0; i < nb; i++ {
		if i == 0 && gp.FirstWide > 0 {
			g.gp.WideKeys = gp.FirstWide
			add(Step{K: "batch", B: g.batch()})
			g.gp.WideKeys = gp.WideKeys
			if gp.FirstBurst > 0 && lower {
				// small batches right behind the big one, all ingested by one
				// merger cycle: the merge heuristic leaves the big lowest
				// segment alone, and it goes to the persister as it is
				for j := 0; j < gp.FirstBurst; j++ {
					add(Step{K: "batch", B: g.batch()})
				}
				add(Step{K: "merge", A: "plain"})
				add(Step{K: "persist"})
				add(Step{K: "check"})
				fresh = false
				continue
			}
		} else {
			g.lonely = false
			b := g.batch()
			if g.lonely && store && gp.Reopen && r.Chance(1, 2) {
				// a persistence round holding nothing but this batch, then a
				// caught-up close and reopen
				add(Step{K: "drain"})
				add(Step{K: "batch", B: b})
				add(Step{K: "reopen", A: "caughtup"})
				continue
			}
			add(Step{K: "batch", B: b})
		}
		handleSteps()
		fresh = true
		if gp.CrossBias && lower && i > 0 && r.Chance(1, 4) {
			// base pending (merge without persist), more batches, then the
			// merger parked right after its ingest while a whole persister
			// round completes, then the merge proper
			add(Step{K: "merge", A: "plain"})
			add(Step{K: "batch", B: g.batch()})
			if r.Chance(1, 2) {
				add(Step{K: "batch", B: g.batch()})
			}
			add(Step{K: "merge", A: mergeKind(), P: mergerParks[r.Intn(len(mergerParks))]})
			add(Step{K: "persist"})
			add(Step{K: "resume", A: "merger"})
			add(Step{K: "check"})
			fresh = false
			if gp.Children && gp.Merge && r.Chance(3, 4) {
				// the stack the merger has just handed over was ingested
				// before that persister round completed: operands on child
				// keys whose values have moved into the lower level meanwhile
				add(Step{K: "batch", B: g.childMergeBatch()})
				add(Step{K: "merge", A: mergeKind()})
				add(Step{K: "check"})
			}
		}
		if gp.Nested && gp.Merge && lower && !gp.NoPersistSteps && i > 0 && r.Chance(1, 5) {
			// a grandchild's value has reached the lower level; the stack
			// handed to the persister carries a stack for that grandchild;
			// before the round runs, a Merge operand on that value is
			// resolved by the merger against the handed-over stack
			add(Step{K: "merge", A: "plain"})
			add(Step{K: "persist"})
			if bs := g.nestedCrossBatches(); bs != nil {
				add(Step{K: "batch", B: bs[0]})
				add(Step{K: "merge", A: "plain"})
				add(Step{K: "batch", B: bs[1]})
				add(Step{K: "batch", B: bs[2]})
				add(Step{K: "merge", A: "mergeAll"})
				add(Step{K: "check"})
				fresh = false
			}
		}
		if gp.Children && gp.Merge && i > 0 && r.Chance(1, 8) {
			// a child collection whose data is still on its way down (in the
			// dirty base or mid) is deleted and recreated with Merge operands
			// on its predecessor's keys
			if r.Chance(1, 2) {
				add(Step{K: "merge", A: "plain"})
			}
			if bs := g.recreateBatches(); bs != nil {
				for j, b := range bs {
					add(Step{K: "batch", B: b})
					if j == 0 && r.Chance(1, 3) {
						add(Step{K: "merge", A: "plain"})
					}
				}
				add(Step{K: "merge", A: mergeKind()})
				add(Step{K: "check"})
				fresh = false
			}
		}
		if gp.RefusePct > 0 && gp.Merge && cfg.MergeOp && i > 0 && r.Intn(100) < gp.RefusePct {
			// The application's merge operator refuses to merge for a few
			// merger cycles: an older version of k sits in the dirty mid (or
			// further down), a poisoned operand on k arrives, the cycles fail
			// (OnError) after having ingested the dirty top; sometimes with a
			// persister round parked in mid-flight, so that the failing cycle
			// holds a reference on the dirty base.  Afterwards the operator
			// relents and nothing may be lost, doubled or leaked.
			k := []byte(g.keys[r.Intn(len(g.keys))])
			add(Step{K: "batch", B: &model.Batch{Ops: []model.Op{{Kind: 'S', Key: k, Val: g.uniqueVal()}}}})
			add(Step{K: "merge", A: "plain"})
			parked := false
			if lower && !gp.NoPersistSteps && r.Chance(1, 2) {
				pp := "persister.updated"
				if store {
					pp = persisterParks[r.Intn(len(persisterParks))]
				}
				add(Step{K: "persist", P: pp})
				parked = true
			}
			if r.Chance(1, 3) {
				add(Step{K: "batch", B: g.batch()})
			}
			add(Step{K: "refuse", B: &model.Batch{Ops: []model.Op{{Kind: 'M', Key: k, Val: MergePoison}}}, N: 1 + r.Intn(3)})
			add(Step{K: "check"})
			if parked && r.Chance(2, 3) {
				add(Step{K: "resume", A: "persister"})
			}
			add(Step{K: "merge", A: mergeKind()})
			add(Step{K: "check"})
			fresh = false
		}
		if gp.PersistAfterBatchPct > 0 && lower && r.Intn(100) < gp.PersistAfterBatchPct {
			add(Step{K: "merge", A: "plain"})
			add(Step{K: "persist"})
			fresh = false
		}
		bgSteps()
		if store && gp.Reopen && r.Chance(1, 7) {
			kind := "caughtup"
			x := r.Intn(10)
			if x < 4 {
				kind = "early"
			} else if x < 6 && gp.ReopenMid {
				kind = "mid"
			} else if x < 8 && gp.ReopenMid {
				kind = "abort" // Store.CloseEx(Abort) with a round parked in mid-flight
			}
			if kind == "mid" || kind == "abort" {
				add(Step{K: "merge", A: "plain"})
				add(Step{K: "persist", P: persisterParks[r.Intn(len(persisterParks))]})
			}
			add(Step{K: "reopen", A: kind})
		}
	}
	if store && gp.FinalReopen {
		add(Step{K: "reopen", A: "caughtup"})
	}
	if gp.TailClose {
		// a suffix with compactions while handles are open, then close
		// collection and store before the handles.
		for i := 0; i < 2; i++ {
			add(Step{K: "batch", B: g.batch()})
			add(Step{K: "merge", A: "mergeAll"})
			add(Step{K: "persist"})
		}
		if store && r.Chance(1, 4) {
			// the other close order: the store goes first, right after a
			// persistence round has published its footer (and while the
			// persister has not yet returned it to the collection), the
			// collection is read afterwards and closed last
			add(Step{K: "batch", B: g.batch()})
			add(Step{K: "merge", A: "plain"})
			switch r.Intn(3) {
			case 0:
				add(Step{K: "persist", P: "store.persist.end"})
			case 1:
				// the store is closed under a round (often a compaction)
				// that is still in flight
				add(Step{K: "persist", P: persisterParks[1+r.Intn(len(persisterParks)-1)]})
			default:
				add(Step{K: "persist"})
			}
			add(Step{K: "closestore", A: "first"})
			add(Step{K: "resume", A: "persister"})
			add(Step{K: "check"})
			if gp.Handles {
				add(Step{K: "snap", H: nextH})
				nextH++
				add(Step{K: "check"})
			}
			add(Step{K: "closecoll"})
			add(Step{K: "check"})
			return p
		}
		if store && r.Chance(1, 3) {
			// close while a persistence round is parked in mid-flight
			add(Step{K: "batch", B: g.batch()})
			add(Step{K: "merge", A: "plain"})
			add(Step{K: "persist", P: persisterParks[r.Intn(len(persisterParks))]})
			add(Step{K: "closecoll", A: "mid"})
		} else {
			add(Step{K: "drain"})
			add(Step{K: "closecoll"})
		}
		add(Step{K: "check"})
		for _, h := range iters {
			if r.Chance(1, 2) {
				add(Step{K: "iterseek", H: h, Start: []byte(g.keys[r.Intn(len(g.keys))])})
			}
		}
		add(Step{K: "closestore"})
		add(Step{K: "check"})
		for _, h := range iters {
			if r.Chance(1, 2) {
				add(Step{K: "iterseek", H: h, Start: []byte(g.keys[r.Intn(len(g.keys))])})
				add(Step{K: "check"})
			}
		}
	}
	return p
}
