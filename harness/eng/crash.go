package eng

// PageSize is the block granularity of the crash model.
const PageSize = 4096

// CrashImage is the recipe of one post-crash disk image.
type CrashImage struct {
	Point   int    // ops[0..Point] have been issued
	Torn    int    // >=0: the write at Point is torn at this byte (only bytes [0,Torn) of it may be applied)
	Kind    string // all | none | subset | torn | cut | zero-extend | hole | none-after-revert
	Subset  uint64 // seed of the block subset (Kind == subset)
	CutFile string // Kind == cut: file whose length is cut
	CutLen  int64
}

type pendWrite struct {
	off  int64
	data []byte
	seq  int
}

type fstate struct {
	exists  bool
	durable []byte
	pending []pendWrite
}

// BuildImage materialises the image described by img from the trace.
// It returns the files of the image (name -> content).
func BuildImage(trace []FOp, img CrashImage, killOnly bool) map[string][]byte {
	files := map[string]*fstate{}
	get := func(n string) *fstate {
		f := files[n]
		if f == nil {
			f = &fstate{}
			files[n] = f
		}
		return f
	}
	for i := 0; i <= img.Point && i < len(trace); i++ {
		op := trace[i]
		switch op.Kind {
		case "create":
			if op.Err == "" {
				f := get(op.Name)
				f.exists = true
				f.durable = nil
				f.pending = nil
			}
		case "write":
			if op.N > 0 {
				d := op.Data
				if i == img.Point && img.Torn >= 0 && img.Torn < len(d) {
					d = d[:img.Torn]
				}
				if len(d) > 0 {
					f := get(op.Name)
					f.pending = append(f.pending, pendWrite{off: op.Off, data: d, seq: i})
				} else if i == img.Point && img.Torn == 0 {
					// nothing of the write reached the file
				}
			}
		case "sync":
			if op.Err == "" {
				f := get(op.Name)
				for _, w := range f.pending {
					f.durable = applyAt(f.durable, w.off, w.data)
				}
				f.pending = nil
			}
		case "truncate":
			if op.Err == "" {
				f := get(op.Name)
				for _, w := range f.pending {
					f.durable = applyAt(f.durable, w.off, w.data)
				}
				f.pending = nil
				if int64(len(f.durable)) > op.Off {
					f.durable = f.durable[:op.Off]
				}
			}
		case "unlink":
			delete(files, op.Name)
		}
	}
	out := map[string][]byte{}
	rng := NewRng(img.Subset)
	for name, f := range files {
		if !f.exists && f.durable == nil && len(f.pending) == 0 {
			continue
		}
		content := append([]byte{}, f.durable...)
		extent := int64(len(content))
		for _, w := range f.pending {
			if e := w.off + int64(len(w.data)); e > extent {
				extent = e
			}
		}
		natural := int64(len(content))
		apply := func(w pendWrite, lo, hi int64) {
			// apply bytes [lo,hi) of the file range covered by w
			if lo < w.off {
				lo = w.off
			}
			if hi > w.off+int64(len(w.data)) {
				hi = w.off + int64(len(w.data))
			}
			if lo >= hi {
				return
			}
			content = applyAt(content, lo, w.data[lo-w.off:hi-w.off])
			if hi > natural {
				natural = hi
			}
		}
		switch {
		case img.Kind == "none-after-revert":
			// only durable content
		case killOnly || img.Kind == "all" || img.Kind == "torn" || img.Kind == "cut":
			for _, w := range f.pending {
				apply(w, w.off, w.off+int64(len(w.data)))
			}
		case img.Kind == "none":
			// only durable content; creation is durable, so the file exists
		case img.Kind == "zero-extend":
			// length reached the full extent but no data block did
			if extent > int64(len(content)) {
				content = append(content, make([]byte, extent-int64(len(content)))...)
			}
		case img.Kind == "hole":
			// the write at the crash point reached the disk with its first
			// and its last page block only; everything before it completely
			for _, w := range f.pending {
				first := w.off / PageSize
				last := (w.off + int64(len(w.data)) - 1) / PageSize
				if w.seq != img.Point || last-first < 2 {
					apply(w, w.off, w.off+int64(len(w.data)))
					continue
				}
				apply(w, first*PageSize, (first+1)*PageSize)
				apply(w, last*PageSize, (last+1)*PageSize)
			}
		default: // subset of page blocks
			for _, w := range f.pending {
				first := w.off / PageSize
				last := (w.off + int64(len(w.data)) - 1) / PageSize
				for b := first; b <= last; b++ {
					if rng.Chance(1, 2) {
						apply(w, b*PageSize, (b+1)*PageSize)
					}
				}
			}
			if rng.Chance(1, 3) && extent > int64(len(content)) {
				// the length update made it to disk although later blocks did not
				content = append(content, make([]byte, extent-int64(len(content)))...)
			}
		}
		if img.Kind == "cut" && img.CutFile == name {
			if img.CutLen < int64(len(f.durable)) {
				// the durable length cannot shrink
			} else if img.CutLen < int64(len(content)) {
				content = content[:img.CutLen]
			}
		}
		out[name] = content
	}
	return out
}

func applyAt(buf []byte, off int64, data []byte) []byte {
	end := off + int64(len(data))
	if int64(len(buf)) < end {
		buf = append(buf, make([]byte, end-int64(len(buf)))...)
	}
	copy(buf[off:end], data)
	return buf
}

