package eng

import (
	"bytes"
	"fmt"
	"os"
	"runtime/debug"
	"sort"
	"strings"

	"github.com/couchbase/moss"

	"mossverif/model"
)

// Safe runs fn converting panics and memory faults (access to an
// unmapped page) in the calling goroutine into an error.
func Safe(fn func() error) (err error) {
	old := debug.SetPanicOnFault(true)
	defer debug.SetPanicOnFault(old)
	defer func() {
		if r := recover(); r != nil {
			err = fmt.Errorf("PANIC/FAULT: %v", r)
			if os.Getenv("VERIF_PANIC_STACK") != "" { // developer aid
				fmt.Fprintf(os.Stderr, "PANIC/FAULT: %v\n%s\n", r, debug.Stack())
			}
		}
	}()
	return fn()
}

// IsFault reports whether an error came from Safe's recover.
func IsFault(err error) bool {
	return err != nil && strings.HasPrefix(err.Error(), "PANIC/FAULT")
}

// IterAll iterates a snapshot range fully and returns copies of keys and
// values, verifying strict ascending order.
func IterAll(s moss.Snapshot, start, end []byte, opts moss.IteratorOptions) (keys []string, vals [][]byte, err error) {
	it, err := s.StartIterator(start, end, opts)
	if err != nil {
		return nil, nil, fmt.Errorf("StartIterator: %v", err)
	}
	if it == nil {
		return nil, nil, fmt.Errorf("StartIterator returned nil iterator and nil error")
	}
	defer it.Close()
	var prev []byte
	first := true
	for n := 0; ; n++ {
		k, v, err := it.Current()
		if err == moss.ErrIteratorDone {
			break
		}
		if err != nil {
			return keys, vals, fmt.Errorf("Current: %v", err)
		}
		if !first && bytes.Compare(prev, k) >= 0 {
			return keys, vals, fmt.Errorf("iterator-order: %q after %q", k, prev)
		}
		first = false
		prev = append(prev[:0], k...)
		keys = append(keys, string(k))
		vals = append(vals, append([]byte{}, v...))
		err = it.Next()
		if err == moss.ErrIteratorDone {
			break
		}
		if err != nil {
			return keys, vals, fmt.Errorf("Next: %v", err)
		}
		if n > 5000000 {
			return keys, vals, fmt.Errorf("iterator does not terminate")
		}
	}
	return keys, vals, nil
}

// ReadTree reads the whole content reachable from a snapshot by
// iteration, recursively through the child collections.
func ReadTree(s moss.Snapshot) (*model.Coll, error) {
	return readTree(s, 0)
}

func readTree(s moss.Snapshot, depth int) (*model.Coll, error) {
	if depth > 8 {
		return nil, fmt.Errorf("child nesting too deep")
	}
	c := model.New()
	keys, vals, err := IterAll(s, nil, nil, moss.IteratorOptions{})
	if err != nil {
		return nil, err
	}
	for i, k := range keys {
		v := vals[i]
		if v == nil {
			v = []byte{}
		}
		c.KV[k] = v
	}
	names, err := s.ChildCollectionNames()
	if err != nil {
		return nil, fmt.Errorf("ChildCollectionNames: %v", err)
	}
	sort.Strings(names)
	for i, n := range names {
		if i > 0 && names[i-1] == n {
			return nil, fmt.Errorf("child name %q listed twice", n)
		}
		cs, err := s.ChildCollectionSnapshot(n)
		if err != nil {
			return nil, fmt.Errorf("ChildCollectionSnapshot(%q): %v", n, err)
		}
		if cs == nil {
			return nil, fmt.Errorf("child %q listed but ChildCollectionSnapshot returned nil", n)
		}
		ct, err := readTree(cs, depth+1)
		cs.Close()
		if err != nil {
			return nil, fmt.Errorf("child %q: %v", n, err)
		}
		c.Ch[n] = ct
	}
	return c, nil
}

// Mismatch describes the first difference between an observation and the
// reference content.
type Mismatch struct {
	Kind string   // get-value | get-nil | get-nonnil | get-err | iter-extra | iter-missing | iter-value | read-err | child-extra | child-missing | unlisted-child
	Path []string // child path
	Key  string
	Got  string
	Want string
}

func (m *Mismatch) String() string {
	return fmt.Sprintf("%s path=%q key=%q got=%s want=%s", m.Kind, strings.Join(m.Path, "/"), m.Key, m.Got, m.Want)
}

func q(b []byte) string {
	if b == nil {
		return "nil"
	}
	if len(b) > 48 {
		return fmt.Sprintf("%q...(%d bytes)", b[:48], len(b))
	}
	return fmt.Sprintf("%q", b)
}

// DiffTree compares an observed tree with the reference tree.
func DiffTree(got, want *model.Coll, path []string) *Mismatch {
	for _, k := range want.SortedKeys() {
		gv, ok := got.KV[k]
		if !ok {
			return &Mismatch{Kind: "iter-missing", Path: path, Key: k, Got: "absent", Want: q(want.KV[k])}
		}
		if !bytes.Equal(gv, want.KV[k]) {
			return &Mismatch{Kind: "iter-value", Path: path, Key: k, Got: q(gv), Want: q(want.KV[k])}
		}
	}
	for _, k := range got.SortedKeys() {
		if _, ok := want.KV[k]; !ok {
			return &Mismatch{Kind: "iter-extra", Path: path, Key: k, Got: q(got.KV[k]), Want: "absent"}
		}
	}
	for _, n := range want.ChildNames() {
		gc, ok := got.Ch[n]
		if !ok {
			return &Mismatch{Kind: "child-missing", Path: append(append([]string{}, path...), n), Got: "absent", Want: "listed"}
		}
		if m := DiffTree(gc, want.Ch[n], append(append([]string{}, path...), n)); m != nil {
			return m
		}
	}
	for _, n := range got.ChildNames() {
		if _, ok := want.Ch[n]; !ok {
			return &Mismatch{Kind: "child-extra", Path: append(append([]string{}, path...), n), Got: "listed", Want: "absent"}
		}
	}
	return nil
}

// DiffCount counts the entries (keys at every level, child collections)
// in which an observed tree differs from a reference tree.
func DiffCount(got, want *model.Coll) int {
	n := 0
	for k, wv := range want.KV {
		if gv, ok := got.KV[k]; !ok || !bytes.Equal(gv, wv) {
			n++
		}
	}
	for k := range got.KV {
		if _, ok := want.KV[k]; !ok {
			n++
		}
	}
	for name, wc := range want.Ch {
		if gc, ok := got.Ch[name]; ok {
			n += DiffCount(gc, wc)
		} else {
			n += 1 + len(wc.KV)
		}
	}
	for name, gc := range got.Ch {
		if _, ok := want.Ch[name]; !ok {
			n += 1 + len(gc.KV)
		}
	}
	return n
}

// SnapAt descends to a child path; the caller closes the returned
// snapshot if closeIt is true.
func SnapAt(root moss.Snapshot, path []string) (s moss.Snapshot, closeIt bool, err error) {
	cur := root
	owned := false
	for _, p := range path {
		next, err := cur.ChildCollectionSnapshot(p)
		if owned {
			cur.Close()
		}
		if err != nil {
			return nil, false, err
		}
		if next == nil {
			return nil, false, nil
		}
		cur, owned = next, true
	}
	return cur, owned, nil
}

// CheckGets compares Get of every universe key at every path with the
// reference content (nil exactly when absent). It returns the number of
// comparisons made.
func CheckGets(root moss.Snapshot, want *model.Coll, uni *Universe, ro moss.ReadOptions) (int, *Mismatch) {
	n := 0
	for _, path := range want.Paths() {
		w := want.At(path)
		s, owned, err := SnapAt(root, path)
		if err != nil || s == nil {
			return n, &Mismatch{Kind: "child-missing", Path: path, Got: fmt.Sprintf("nil snapshot err=%v", err), Want: "child snapshot"}
		}
		for _, k := range uni.Keys(path) {
			v, err := s.Get([]byte(k), ro)
			n++
			if err != nil {
				if owned {
					s.Close()
				}
				return n, &Mismatch{Kind: "get-err", Path: path, Key: k, Got: err.Error(), Want: q(w.Get([]byte(k)))}
			}
			wv := w.Get([]byte(k))
			if wv == nil && v != nil {
				if owned {
					s.Close()
				}
				return n, &Mismatch{Kind: "get-nonnil", Path: path, Key: k, Got: q(v), Want: "nil"}
			}
			if wv != nil && v == nil {
				if owned {
					s.Close()
				}
				return n, &Mismatch{Kind: "get-nil", Path: path, Key: k, Got: "nil", Want: q(wv)}
			}
			if !bytes.Equal(v, wv) {
				if owned {
					s.Close()
				}
				return n, &Mismatch{Kind: "get-value", Path: path, Key: k, Got: q(v), Want: q(wv)}
			}
		}
		if owned {
			s.Close()
		}
	}
	return n, nil
}

// Universe is the set of keys ever mentioned per child path, plus a few
// never-set probe keys.
type Universe struct {
	m map[string]map[string]bool
}

// NewUniverse returns an empty universe.
func NewUniverse() *Universe { return &Universe{m: map[string]map[string]bool{}} }

func pkey(path []string) string { return strings.Join(path, "\x00") }

// Add records a key at a path.
func (u *Universe) Add(path []string, key string) {
	p := pkey(path)
	if u.m[p] == nil {
		u.m[p] = map[string]bool{"\x00never": true, "zz-never-set": true}
	}
	u.m[p][key] = true
}

// AddBatch records all keys of a batch.
func (u *Universe) AddBatch(path []string, b *model.Batch) {
	if b == nil {
		return
	}
	for _, op := range b.Ops {
		u.Add(path, string(op.Key))
	}
	for _, cb := range b.Children {
		np := append(append([]string{}, path...), cb.Name)
		u.Add(np, "zz-never-set")
		u.AddBatch(np, cb.B)
	}
}

// AddTree records all keys of a tree.
func (u *Universe) AddTree(path []string, c *model.Coll) {
	for k := range c.KV {
		u.Add(path, k)
	}
	for n, ch := range c.Ch {
		u.AddTree(append(append([]string{}, path...), n), ch)
	}
}

// Keys returns the sorted keys known at a path.
func (u *Universe) Keys(path []string) []string {
	mm := u.m[pkey(path)]
	if mm == nil {
		return []string{"\x00never", "zz-never-set"}
	}
	out := make([]string, 0, len(mm))
	for k := range mm {
		out = append(out, k)
	}
	sort.Strings(out)
	return out
}
