package eng

import (
	"bytes"
	"errors"
	"sort"
	"sync"
	"sync/atomic"
	"time"

	"github.com/couchbase/moss"
)

// LowerSnap is an immutable map-backed moss.Snapshot used as the
// application-supplied lower level (top-level keys only).
type LowerSnap struct {
	keys []string // sorted
	kv   map[string][]byte
}

// NewLowerSnap builds a snapshot from a map (copied).
func NewLowerSnap(kv map[string][]byte) *LowerSnap {
	s := &LowerSnap{kv: make(map[string][]byte, len(kv))}
	for k, v := range kv {
		s.kv[k] = v
		s.keys = append(s.keys, k)
	}
	sort.Strings(s.keys)
	return s
}

// Map returns a copy of the content.
func (s *LowerSnap) Map() map[string][]byte {
	out := make(map[string][]byte, len(s.kv))
	for k, v := range s.kv {
		out[k] = v
	}
	return out
}

// LowerCloseDelayNS, when non-zero, makes Close of a lower-level snapshot
// take that long (an application whose snapshots are expensive to release):
// it widens whatever moss does between dropping its references to superseded
// snapshots and its next step.  Set by free-running workloads only.
var LowerCloseDelayNS int64

// Close implements moss.Snapshot.
func (s *LowerSnap) Close() error {
	if d := atomic.LoadInt64(&LowerCloseDelayNS); d > 0 {
		time.Sleep(time.Duration(d))
	}
	return nil
}

// Get implements moss.Snapshot.
func (s *LowerSnap) Get(key []byte, ro moss.ReadOptions) ([]byte, error) {
	v, ok := s.kv[string(key)]
	if !ok {
		return nil, nil
	}
	if v == nil {
		v = []byte{}
	}
	return v, nil
}

// ChildCollectionNames implements moss.Snapshot.
func (s *LowerSnap) ChildCollectionNames() ([]string, error) { return nil, nil }

// ChildCollectionSnapshot implements moss.Snapshot.
func (s *LowerSnap) ChildCollectionSnapshot(string) (moss.Snapshot, error) { return nil, nil }

// StartIterator implements moss.Snapshot.
func (s *LowerSnap) StartIterator(start, end []byte, o moss.IteratorOptions) (moss.Iterator, error) {
	it := &lowerIter{s: s, start: start, end: end}
	it.pos = it.lowerBound(start)
	return it, nil
}

type lowerIter struct {
	s          *LowerSnap
	start, end []byte
	pos        int
}

func (it *lowerIter) lowerBound(k []byte) int {
	if k == nil {
		return 0
	}
	return sort.Search(len(it.s.keys), func(i int) bool {
		return bytes.Compare([]byte(it.s.keys[i]), k) >= 0
	})
}

func (it *lowerIter) done() bool {
	if it.pos >= len(it.s.keys) {
		return true
	}
	if it.end != nil && bytes.Compare([]byte(it.s.keys[it.pos]), it.end) >= 0 {
		return true
	}
	return false
}

func (it *lowerIter) Close() error { return nil }

func (it *lowerIter) Next() error {
	if it.done() {
		return moss.ErrIteratorDone
	}
	it.pos++
	if it.done() {
		return moss.ErrIteratorDone
	}
	return nil
}

func (it *lowerIter) SeekTo(k []byte) error {
	if it.start != nil && bytes.Compare(k, it.start) < 0 {
		k = it.start
	}
	it.pos = it.lowerBound(k)
	if it.done() {
		return moss.ErrIteratorDone
	}
	return nil
}

func (it *lowerIter) Current() ([]byte, []byte, error) {
	if it.done() {
		return nil, nil, moss.ErrIteratorDone
	}
	k := it.s.keys[it.pos]
	v := it.s.kv[k]
	if v == nil {
		v = []byte{}
	}
	return []byte(k), v, nil
}

func (it *lowerIter) CurrentEx() (moss.EntryEx, []byte, []byte, error) {
	k, v, err := it.Current()
	return moss.EntryEx{Operation: moss.OperationSet}, k, v, err
}

// ErrInjected is the error returned by an injected lower-level failure.
var ErrInjected = errors.New("verif-injected-failure")

// Offer records one LowerLevelUpdate call as seen by the application.
type Offer struct {
	Seq    int
	Failed bool
	// Ops is what iterating `higher` with IncludeDeletions+SkipLowerLevel
	// produced (Merge entries already resolved through higher.Get).
	Keys []string
	Kind []byte // 'S','D' (after resolution), 'm' marks "was a merge"
	Vals [][]byte
}

// Lower is the application side of the write-back protocol.
type Lower struct {
	mu     sync.Mutex
	Cur    *LowerSnap
	Offers []Offer
	// FailPlan[i] == true makes the i-th call (0-based) fail before
	// applying anything.
	FailPlan map[int]bool
	calls    int
	// Gate, when non-nil, is called at the start of each update (used
	// to stall the lower level from a scenario).
	Gate func(call int)
	// FailAlways makes every call fail promptly (after a short pause)
	// without recording an offer: a lower level that keeps returning errors.
	FailAlways bool
}

// NewLower returns a lower level starting from the given content.
func NewLower(init map[string][]byte) *Lower {
	return &Lower{Cur: NewLowerSnap(init), FailPlan: map[int]bool{}}
}

// Snapshot returns the current lower-level content.
func (l *Lower) Snapshot() *LowerSnap {
	l.mu.Lock()
	defer l.mu.Unlock()
	return l.Cur
}

// Calls returns the number of LowerLevelUpdate invocations so far.
func (l *Lower) Calls() int {
	l.mu.Lock()
	defer l.mu.Unlock()
	return l.calls
}

// Update is the moss.LowerLevelUpdate callback implementing the
// documented protocol.
func (l *Lower) Update(higher moss.Snapshot) (moss.Snapshot, error) {
	l.mu.Lock()
	call := l.calls
	l.calls++
	fail := l.FailPlan[call]
	gate := l.Gate
	cur := l.Cur
	always := l.FailAlways
	l.mu.Unlock()

	if gate != nil {
		gate(call)
	}
	if always {
		time.Sleep(200 * time.Microsecond)
		return nil, ErrInjected
	}

	off := Offer{Seq: call, Failed: fail}
	next := cur.Map()

	if higher != nil {
		it, err := higher.StartIterator(nil, nil, moss.IteratorOptions{
			IncludeDeletions: true, SkipLowerLevel: true})
		if err != nil {
			return nil, err
		}
		if it != nil {
			defer it.Close()
			for {
				ex, k, v, err := it.CurrentEx()
				if err == moss.ErrIteratorDone {
					break
				}
				if err != nil {
					return nil, err
				}
				kind := byte('S')
				switch ex.Operation {
				case moss.OperationSet:
					next[string(k)] = append([]byte{}, v...)
					v = next[string(k)]
				case moss.OperationDel:
					kind = 'D'
					delete(next, string(k))
					v = nil
				case moss.OperationMerge:
					kind = 'm'
					mv, err := higher.Get(k, moss.ReadOptions{})
					if err != nil {
						return nil, err
					}
					if mv != nil {
						next[string(k)] = append([]byte{}, mv...)
					} else {
						delete(next, string(k))
					}
					v = mv
				default:
					return nil, errors.New("unexpected operation")
				}
				off.Keys = append(off.Keys, string(k))
				off.Kind = append(off.Kind, kind)
				off.Vals = append(off.Vals, append([]byte{}, v...))
				err = it.Next()
				if err == moss.ErrIteratorDone {
					break
				}
				if err != nil {
					return nil, err
				}
			}
		}
	}

	l.mu.Lock()
	defer l.mu.Unlock()
	l.Offers = append(l.Offers, off)
	if fail {
		return nil, ErrInjected
	}
	l.Cur = NewLowerSnap(next)
	return l.Cur, nil
}
