#!/bin/bash
# tools/intake_round.sh <SRC> <PROP> [CHECK ...]
# Intake of every m<i>.diff a sub-agent left in <SRC>/<PROP>/mutations: numbers
# them after the changes already kept for that property and runs
# tools/seed_intake.py (confirmation in a scratch worktree + quick trials).
SRC="$1"; PROP="$2"; shift 2
cd "$(dirname "$0")/.."
max=0
for d in seeded/$PROP-m*; do n="${d##*-m}"; [ -d "$d" ] && [ "$n" -gt "$max" ] && max="$n"; done
i=1
while [ -f "$SRC/$PROP/mutations/m$i.diff" ]; do
  # the offset is such that m<i> becomes m<max+i>
  SEED_SRC="$SRC" SEED_OFFSET="$max" python3 tools/seed_intake.py "$PROP" "$i" "$@"
  i=$((i+1))
done
