#!/usr/bin/env python3
"""tools/seed_intake.py <PROP> <i> [CHECK ...]

Confirms a seeded change produced by a sub-agent in /tmp/mut/<PROP>/mutations
(m<i>.diff, m<i>_demo_test.go, m<i>.md) in a scratch worktree of /repo:
  - the demonstration passes on the unchanged tree,
  - the patch applies, the tree builds, the demonstration fails with it,
  - the repository's own suite still passes with it,
then runs the given checks (default: the property's own) against /repo with the
patch applied (tools/trial.sh, which reverts /repo afterwards) and stores
patch.diff, the demonstration and meta.json under /verif/seeded/<PROP>-m<i>/.
"""
import json, os, re, shutil, subprocess, sys, tempfile, time

ENV = dict(os.environ, GOFLAGS="-mod=mod", GOPROXY="off", GOSUMDB="off", GOTOOLCHAIN="local")
VERIF = os.path.dirname(os.path.dirname(os.path.abspath(__file__)))

def sh(cmd, cwd=None, timeout=3600):
    p = subprocess.run(cmd, shell=True, cwd=cwd, env=ENV, stdout=subprocess.PIPE, stderr=subprocess.STDOUT, text=True, timeout=timeout)
    return p.returncode, p.stdout

def main():
    prop, i = sys.argv[1], sys.argv[2]
    checks = sys.argv[3:] or [prop]
    src = "%s/%s/mutations" % (os.environ.get("SEED_SRC", "/tmp/mut"), prop)
    off = int(os.environ.get("SEED_OFFSET", "0"))
    diff = os.path.join(src, "m%s.diff" % i)
    demo = os.path.join(src, "m%s_demo_test.go" % i)
    md = os.path.join(src, "m%s.md" % i)
    out = os.path.join(VERIF, "seeded", "%s-m%d" % (prop, int(i) + off))
    os.makedirs(out, exist_ok=True)
    meta = {"id": "%s-m%d" % (prop, int(i) + off), "property": prop, "source": "independent sub-agent given only the property text and a scratch worktree",
            "confirmed": {}, "checks": {}}
    tags = "-tags verif" if "go:build verif" in open(demo).read() else ""
    if prop == "C17":
        tags += " -race"
    wt = tempfile.mkdtemp(prefix="intake.", dir="/tmp")
    os.rmdir(wt)
    rc, o = sh("git -C /repo worktree add -q %s HEAD" % wt)
    try:
        shutil.copy(demo, os.path.join(wt, "zz_mutation_demo_test.go"))
        test = "TestMutationDemo%s" % i
        rc0, o0 = sh("go test %s -vet=off -count=1 -run '^%s$' ." % (tags, test), cwd=wt, timeout=1200)
        meta["confirmed"]["demo_without_change"] = "pass" if rc0 == 0 else "FAIL"
        rc, o = sh("git apply %s" % diff, cwd=wt)
        meta["confirmed"]["patch_applies"] = rc == 0
        if rc != 0:
            print("patch does not apply:", o)
        rcb, ob = sh("go build ./... && go vet -tags verif . >/dev/null 2>&1; go build -tags verif ./...", cwd=wt)
        meta["confirmed"]["builds"] = rcb == 0
        rc1, o1 = sh("go test %s -vet=off -count=1 -run '^%s$' ." % (tags, test), cwd=wt, timeout=1200)
        meta["confirmed"]["demo_with_change"] = "fail" if rc1 != 0 else "PASSES (not a break)"
        meta["confirmed"]["demo_failure_excerpt"] = "\n".join([l for l in o1.splitlines() if "---" in l or "Error" in l or ".go:" in l][:6])[:900]
        os.remove(os.path.join(wt, "zz_mutation_demo_test.go"))
        t0 = time.time()
        rc2, o2 = sh("go test -vet=off -count=1 -timeout 25m ./...", cwd=wt, timeout=2400)
        if rc2 != 0:  # timing-sensitive tests: one retry
            rc2, o2 = sh("go test -vet=off -count=1 -timeout 25m ./...", cwd=wt, timeout=2400)
        meta["confirmed"]["suite_with_change"] = "pass" if rc2 == 0 else "FAIL: " + " ".join(re.findall(r"--- FAIL: (\S+)", o2))
        meta["confirmed"]["suite_seconds"] = int(time.time() - t0)
    finally:
        sh("git -C /repo worktree remove --force %s" % wt)
        shutil.rmtree(wt, ignore_errors=True)
    # run the checks
    rc, o = sh("%s/tools/trial.sh %s quick %s" % (VERIF, diff, " ".join(checks)), cwd=VERIF, timeout=7200)
    for line in o.splitlines():
        m = re.match(r"^(C\d+) exit=(\d+) (.*)", line)
        if m:
            meta["checks"][m.group(1)] = {"exit": int(m.group(2)), "result": m.group(3), "violations": []}
            last = m.group(1)
        elif "oracle=" in line and meta["checks"]:
            meta["checks"][last]["violations"].append(line.strip()[:200])
    meta["detected_by"] = sorted(k for k, v in meta["checks"].items() if v["exit"] == 1)
    shutil.copy(diff, os.path.join(out, "patch.diff"))
    shutil.copy(demo, os.path.join(out, "demo_test.go.txt"))
    if os.path.exists(md):
        shutil.copy(md, os.path.join(out, "description.md"))
        txt = open(md).read()
        meta["needs_to_manifest"] = "see description.md"
    meta["ran"] = ["demo on unchanged tree", "git apply + build", "demo with change", "go test -vet=off -count=1 ./... with change", "tools/trial.sh patch.diff quick " + " ".join(checks)]
    json.dump(meta, open(os.path.join(out, "meta.json"), "w"), indent=1)
    print(json.dumps({k: meta[k] for k in ("id", "confirmed", "detected_by")}, indent=1))
    for k, v in meta["checks"].items():
        print(k, v["exit"], v["result"][:150])
        for x in v["violations"][:2]:
            print("   ", x[:180])

if __name__ == "__main__":
    main()
