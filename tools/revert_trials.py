#!/usr/bin/env python3
"""tools/revert_trials.py

For every `fixed` entry of known_findings.json: build the reverse patch of the
fix commit, apply it to a scratch worktree of /repo HEAD (tools/trial.sh) and
run the check of the property that originally reported the defect.  A check
that no longer reports the defect it once found has lost reach.  Results go to
/verif/seeded/reverts.json.
"""
import json, os, subprocess, sys, re
VERIF = os.path.dirname(os.path.dirname(os.path.abspath(__file__)))
kf = json.load(open(os.path.join(VERIF, "known_findings.json")))
only = set(sys.argv[1:])
outp = os.path.join(VERIF, "seeded", "reverts.json")
out = json.load(open(outp)) if (only and os.path.exists(outp)) else {}
for e in kf:
    if e.get("status") != "fixed":
        continue
    if only and e["id"] not in only:
        continue
    c = e["commit"]
    patch = "/tmp/revert_%s.diff" % e["id"]
    manual = os.path.join(VERIF, "seeded", "reverts", e["id"] + ".manual.diff")
    if os.path.exists(manual):
        # later fixes touch the same lines: a hand-made patch removes just this fix
        d = open(manual).read()
    else:
        d = subprocess.run(["git", "-C", "/repo", "diff", c, c + "~1"], stdout=subprocess.PIPE, text=True).stdout
    open(patch, "w").write(d)
    p = subprocess.run("%s/tools/trial.sh %s quick %s" % (VERIF, patch, e["property"]), shell=True, stdout=subprocess.PIPE,
                       stderr=subprocess.STDOUT, text=True, cwd=VERIF)
    m = re.search(r"^(C\d+) exit=(\d+) (.*)$", p.stdout, re.M)
    if "patch does not apply" in p.stdout or not m:
        out[e["id"]] = {"property": e["property"], "commit": c, "result": "reverse patch does not apply to HEAD (later fixes touch the same lines)"}
    else:
        viol = [l.strip()[:160] for l in p.stdout.splitlines() if "oracle=" in l][:2]
        out[e["id"]] = {"property": e["property"], "commit": c, "exit": int(m.group(2)), "detected": m.group(2) == "1", "result": m.group(3)[:160], "violations": viol}
    print(e["id"], out[e["id"]].get("detected"), out[e["id"]].get("result", "")[:120], flush=True)
    os.remove(patch)
json.dump(out, open(os.path.join(VERIF, "seeded", "reverts.json"), "w"), indent=1)
