#!/usr/bin/env python3
"""Generates /verif/MANIFEST.json from the table below (kept in one place so
that the manifest stays valid while checks are added)."""
import json, os, subprocess

HERE = os.path.dirname(os.path.dirname(os.path.abspath(__file__)))

def hook_commits():
    try:
        out = subprocess.check_output(["git", "-C", "/repo", "log", "--format=%h %s"], text=True)
        return [l.split()[0] for l in out.splitlines() if " verif:" in " " + l]
    except Exception:
        return []

# id -> (level, technique, level text, level note, design ref)
CHECKS = {
 "C01": ("exploration", "steered execution + reference-model comparison after every step",
         "Every generated program steers merger cycles, persister rounds, parks and reopens explicitly; after each step a fresh Snapshot is compared with an executable ordered-map model by Get (nil-ness exact) and by full iteration. Held = on every (history, schedule, configuration) executed; coverage is reported as distinct (configuration class, section shape, park point) triples.",
         "Trusts the reference model (60 lines), the director's parking protocol (gates only at hook points outside collection.m) and that no ExecuteBatch is in flight when sampling (single-threaded director).", "3/C01"),
 "C02": ("exploration", "steered execution + frozen-copy monitor on every open handle after every step",
         "Open snapshots, child snapshots, store snapshots and partially advanced iterators are re-read in full (memory faults trapped) after every later step, including after full compactions that unlink their file and after Collection.Close/Store.Close.",
         "Iterators and child snapshots opened from a collection snapshot are closed before that snapshot (the property promises them only while it is open); store-snapshot iterators are kept open past their snapshot.", "3/C02"),
 "C04": ("exploration", "steered close/reopen + canonical-hash prefix identification",
         "Reopened content is identified by canonical hash against the table of all prefix states; caught-up closes must yield exactly all batches, early/mid closes a prefix not older than what the store had exposed. One case in five reopens without waiting for the closed instance's asynchronous unlinks. Close kinds include Store.CloseEx(Abort) with a round parked in mid-flight.",
         "Caught-up = 3 directed merger+persister iterations after the last batch (decided by steps, not by gauges). KF-05 (an immediate reopen racing the asynchronous removal of the footer-less file of an aborted first compaction fails once) is a recorded known finding.", "3/C04"),
 "C07": ("exploration", "steered persistence rounds + store-content / post-compaction shape monitors + directory check at quiescence",
         "After every completed round the store snapshot must be a non-decreasing prefix state; after each full compaction no deletion marker, no repeated key, nothing above segment level 0, num_segments <= 1 (recursively in children); at the end exactly one data file.", "Round kind is read from Store.Stats deltas.", "3/C07"),
 "C08": ("exploration", "steered execution + left-fold model with an order-sensitive, nil-revealing merge operator",
         "Get and iterator values of merged keys are compared with the model fold after every step and after reopen, for operands spread over sections, persisted segments, compactions, custom lower level and child collections (nested two deep), including operands folding to the empty value and phases in which the operator refuses to merge.", "The operator is the harness's own; PartialMerge always refuses.", "3/C08"),
 "C10": ("exploration", "steered execution + cross-read-path agreement monitor",
         "Collection.Get, Snapshot.Get (each with and without NoCopyValue) and the iterator entry are compared pairwise for every top-level universe key after every step; copying-Get results are re-checked after everything is closed.", "Agreement is relational (no model involved).", "3/C10"),
 "C11": ("exploration", "steered execution + model tree comparison (collection, store, reopen)",
         "The whole child tree (names, contents, nesting) seen through ChildCollectionNames/ChildCollectionSnapshot is compared with the model tree after every step, at store level after every round and after reopen, for create/write/delete/recreate/child-only/delete-only histories.", "A name is mentioned at most once per batch.", "3/C11"),
 "C13": ("exploration", "steered execution against a map-backed application lower level + prefix/monotonicity monitor, injected LowerLevelUpdate failures",
         "The application lower level (updated by the documented protocol) must equal a non-decreasing prefix state after every step and the full content after draining, under single/burst/alternating update failures.", "Top-level keys only (the write-back protocol does not expose child incarnations).", "3/C13"),
 "C15": ("exploration", "steered execution + handle re-read monitor + /proc/self/fd, /proc/self/maps and directory inspection at quiescence",
         "Handles of every kind are re-read after every step (faults trapped); after everything is closed and no moss goroutine is runnable, no descriptor or mapping of the unique store directory may remain and the directory must hold exactly one data file.", "Quiescence is decided from runtime.Stack goroutine states.", "3/C15"),
 "C20": ("exploration", "steered execution + Stats() sampling vs lower-level content monitor",
         "Whenever the dirty gauges are all zero with n>0 batches executed, the lower level's own content (Store.Snapshot / application map) must equal the full reference content; after draining the gauges must be zero.", "KF-03 (a pending creation of an empty child collection or deletion of a child collection cannot show in any gauge) is a recorded known finding, matched only when the lower level lacks nothing but such structural changes; the run continues past it.", "3/C20"),
}

NOT_YET = {
 "C03": "check under construction (free-running stress engine) - will be claimed when built",
 "C05": "check under construction (crash-image enumeration) - will be claimed when built",
 "C06": "check under construction (fault-plan enumeration) - will be claimed when built",
 "C09": "check under construction (iterator call-sequence programs) - will be claimed when built",
 "C12": "check under construction (history walk / revert) - will be claimed when built",
 "C14": "check under construction (key-index differential) - will be claimed when built",
 "C16": "check under construction (blocking / close scenarios) - will be claimed when built",
 "C17": "check under construction (race-detector workload) - will be claimed when built",
 "C18": "check under construction (read-only directory immutability) - will be claimed when built",
 "C19": "check under construction (hostile bytes / limits) - will be claimed when built",
}

def main():
    extra = os.path.join(HERE, "tools", "manifest_extra.json")
    checks_tbl = dict(CHECKS)
    not_yet = dict(NOT_YET)
    if os.path.exists(extra):
        ex = json.load(open(extra))
        for k, v in ex.get("checks", {}).items():
            checks_tbl[k] = tuple(v)
            not_yet.pop(k, None)
    checks = []
    for pid in sorted(checks_tbl):
        level, tech, text, note, ref = checks_tbl[pid]
        checks.append({
            "property_id": pid,
            "quick_cmd": "./run.sh %s quick" % pid,
            "thorough_cmd": "./run.sh %s thorough" % pid,
            "evidence_file": "/verif/evidence/%s.json" % pid,
            "replay_cmd_template": "./run.sh --replay {path}",
            "engine": "mosscheck",
            "level_claimed": {"category": level, "text": text, "design_ref": "DESIGN.md section " + ref},
            "level_note": note,
            "technique": "runtime monitoring: " + tech,
        })
    m = {
        "version": 1,
        "setup_cmd": "./run.sh --setup",
        "hooks": {
            "guard": "verif",
            "enable": "go build -tags verif (harness module /verif/harness with `replace github.com/couchbase/moss => /repo`); hooks are the functions verifAt/verifOnRemove in /repo/verif_hooks_on.go, empty in verif_hooks_off.go",
            "baseline_off_cmd": "cd /repo && GOFLAGS=-mod=mod GOPROXY=off GOSUMDB=off GOTOOLCHAIN=local go test -vet=off -count=1 -timeout 25m ./...",
            "source_commits": hook_commits(),
            "add_only": True,
        },
        "engines": [{
            "name": "mosscheck",
            "path": "/verif/harness",
            "serves_properties": sorted(checks_tbl),
            "kind_free_text": "Go harness built against /repo with -tags verif: supervisor + 16 worker processes; steered director over hook points, free-running stress with seeded delays, recording/fault-injecting File substrate, reference model, per-property oracles, known-findings matcher",
        }],
        "checks": checks,
        "not_applicable": [{"property_id": k, "reason": v} for k, v in sorted(not_yet.items())],
        "notes": "All checks honour VERIF_SEED (default 1). Exit 0 = held on everything explored (KNOWN-FINDING lines for recorded findings), 1 = VIOLATION line with replay path, 3 = inconclusive / harness error. Scratch lives under /dev/shm (or $VERIF_SCRATCH) and is removed by the command.",
    }
    json.dump(m, open(os.path.join(HERE, "MANIFEST.json"), "w"), indent=1)
    print("wrote MANIFEST.json with", len(checks), "checks,", len(not_yet), "not_applicable")

if __name__ == "__main__":
    main()
