#!/usr/bin/env python3
"""tools/final_trials.py [ID ...]

Re-runs the committed checks (quick tier) against every seeded change under
/verif/seeded/<id>/patch.diff (or only the given ids) and records the outcome
in meta.json under "checks_final" / "detected_by_final".  Uses tools/trial.sh,
i.e. a scratch worktree of /repo; /repo itself is not touched.
"""
import json, os, re, subprocess, sys

VERIF = os.path.dirname(os.path.dirname(os.path.abspath(__file__)))
RELATED = {
 "C01": ["C01", "C03", "C06"], "C02": ["C02", "C15", "C12", "C06"], "C03": ["C03", "C11"], "C04": ["C04", "C11", "C08"], "C05": ["C05", "C06", "C04", "C18"], "C06": ["C06"],
 "C07": ["C07", "C15", "C11"], "C08": ["C08", "C13", "C06"], "C09": ["C09", "C03"], "C10": ["C10", "C03"], "C11": ["C11", "C08", "C04"], "C12": ["C12", "C05"],
 "C13": ["C13", "C08", "C03"], "C14": ["C14", "C09"], "C15": ["C15", "C02", "C12"], "C16": ["C16"], "C17": ["C17"], "C18": ["C18"],
 "C19": ["C19", "C08", "C03"], "C20": ["C20", "C06", "C11"],
}

def main():
    ids = sys.argv[1:] or sorted(os.listdir(os.path.join(VERIF, "seeded")))
    for sid in ids:
        d = os.path.join(VERIF, "seeded", sid)
        mp = os.path.join(d, "meta.json")
        if not os.path.exists(mp):
            continue
        meta = json.load(open(mp))
        prop = meta["property"]
        checks = RELATED.get(prop, [prop])
        p = subprocess.run("%s/tools/trial.sh %s/patch.diff quick %s" % (VERIF, d, " ".join(checks)), shell=True,
                           stdout=subprocess.PIPE, stderr=subprocess.STDOUT, text=True, cwd=VERIF)
        res, last = {}, None
        for line in p.stdout.splitlines():
            m = re.match(r"^(C\d+) exit=(\d+) (.*)", line)
            if m:
                last = m.group(1)
                res[last] = {"exit": int(m.group(2)), "result": m.group(3), "violations": []}
            elif "oracle=" in line and last:
                res[last]["violations"].append(line.strip()[:200])
        if "patch does not apply" in p.stdout:
            meta["checks_final"] = {"note": "patch no longer applies to /repo HEAD"}
        else:
            meta["checks_final"] = res
        meta["detected_by_final"] = sorted(k for k, v in res.items() if v["exit"] == 1)
        json.dump(meta, open(mp, "w"), indent=1)
        print(sid, "->", meta["detected_by_final"], {k: v["exit"] for k, v in res.items()}, flush=True)

if __name__ == "__main__":
    main()
