#!/bin/bash
# tools/trial.sh <patch.diff> <tier> <ID> [ID...]
# Runs the given checks against a scratch worktree of /repo with a seeded
# change applied (VERIF_REPO), leaving /repo, /verif/evidence and
# /verif/replays untouched (results go to a scratch output directory).
# Prints one line per check: ID exit=<code> <RESULT line>.
set -u
PATCH="$(readlink -f "$1")"; TIER="$2"; shift 2
cd "$(dirname "$0")/.."
VERIF="$(pwd)"
WT="$(mktemp -u /tmp/trial.XXXXXX)"
OUT="$(mktemp -d /tmp/trialout.XXXXXX)"
cleanup() { git -C /repo worktree remove --force "$WT" 2>/dev/null; rm -rf "$WT" "$OUT"; }
trap cleanup EXIT
git -C /repo worktree add -q "$WT" HEAD || exit 2
git -C "$WT" apply "$PATCH" 2>/dev/null || git -C "$WT" apply -3 "$PATCH" 2>/dev/null || { echo "patch does not apply"; exit 2; }
cp "$VERIF/known_findings.json" "$OUT/"
for ID in "$@"; do
  O="$(VERIF_REPO="$WT" VERIF_OUT="$OUT" VERIF_SEED="${VERIF_SEED:-1}" timeout "${TRIAL_TIMEOUT:-1500}" ./run.sh "$ID" "$TIER" 2>&1)"; RC=$?
  echo "$ID exit=$RC $(echo "$O" | grep -E '^RESULT|^INCONCLUSIVE|^HARNESS' | head -1 | cut -c1-220)"
  echo "$O" | grep -E "oracle=" | head -3 | cut -c1-220
  if [ -n "${TRIAL_KEEP:-}" ]; then mkdir -p "$TRIAL_KEEP"; cp "$OUT"/replays/* "$TRIAL_KEEP"/ 2>/dev/null; fi
done
