#!/bin/bash
# tools/trial.sh <patch.diff> <tier> <ID> [ID...]
# Applies a seeded change to /repo, runs the given checks, reverts /repo.
# Prints one line per check: ID exit=<code> <RESULT line>. Evidence files are
# restored afterwards (a trial must not overwrite committed evidence).
set -u
PATCH="$(readlink -f "$1")"; TIER="$2"; shift 2
cd "$(dirname "$0")/.."
VERIF="$(pwd)"
if ! git -C /repo diff --quiet; then echo "refusing: /repo has uncommitted changes"; exit 2; fi
restore() { git -C /repo checkout -- . ; git -C "$VERIF" checkout -- evidence 2>/dev/null; }
trap restore EXIT
git -C /repo apply "$PATCH" || { echo "patch does not apply"; exit 2; }
( cd /repo && GOFLAGS=-mod=mod GOPROXY=off GOSUMDB=off GOTOOLCHAIN=local go build ./... ) || { echo "patched tree does not build"; exit 2; }
for ID in "$@"; do
  OUT="$(VERIF_SEED="${VERIF_SEED:-1}" timeout "${TRIAL_TIMEOUT:-1500}" ./run.sh "$ID" "$TIER" 2>&1)"; RC=$?
  echo "$ID exit=$RC $(echo "$OUT" | grep -E '^RESULT|^INCONCLUSIVE|^HARNESS' | head -1 | cut -c1-220)"
  echo "$OUT" | grep -E "oracle=" | head -3 | cut -c1-220
done
